"""Pickle properties on documents the parser returns (domain (b) of C06-C10): text from the document model."""
from __future__ import annotations


def run_text(ctx, pid):
    try:
        from vlib import model  # noqa
    except ImportError:
        return
    from . import textdocs_impl
    textdocs_impl.run_text(ctx, pid)


def check_text(case, stats, pid):
    from . import textdocs_impl
    if case.get("sub") == "rawtext":
        return textdocs_impl.check_rawtext(case, stats)
    return textdocs_impl.check_text(case, stats, pid)
