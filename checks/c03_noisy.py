"""C03 on noisy *accepted* documents: the real AST must equal the reference parser's AST (model-free oracle)."""
from __future__ import annotations

from vlib import gh, noisy
from vlib.common import Stats, Violation, diff_text, hyp, shard_seed
from vlib.refparse import ref_parse


def check_noisy(case, stats):
    text, dflt = case["text"], case.get("default", "en")
    if gh.names_existing_path(text):
        stats.label("excluded_known_F1")
        return
    ref = ref_parse(text, dflt)
    if not ref.accepted:
        stats.label("rejected-skipped")
        return
    f = ref.ast.get("feature")
    nch = len(f["children"]) if f else 0
    stats.case(text, nch >= 2, sample={"text": text}, labels=[case.get("label", "-")])
    real = gh.parse(text, dflt)
    if real[0] != "ok":
        stats.label("acceptance-mismatch(see C02/C14)")
        return
    if real[1] != ref.ast:
        raise Violation(case, "AST differs from the reference parser's, %s\n--- text:\n%s" % (diff_text(real[1], ref.ast, "parser", "reference"), text))


def unit_noisy(a):
    stats = Stats()
    strat = noisy.st_noisy().map(lambda x: {"sub": "noisy", "text": x[0], "default": x[1], "label": x[2]})
    hyp(stats, strat, check_noisy, a["n"], shard_seed(a["seed"], a["shard"], 33))
    return stats


def run_noisy(ctx):
    q = ctx.quick
    ctx.units("noisy-accepted-documents", unit_noisy, [{"n": 750 if q else 6000, "seed": ctx.seed, "shard": i} for i in range(8 if q else 16)], procs=16)
