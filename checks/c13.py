"""C13 - doc strings are opaque: verbatim content, closed only by their own delimiter."""
from __future__ import annotations

from hypothesis import strategies as st

from vlib import gh, model
from vlib.common import Stats, Violation, diff_text, hyp, shard_seed
from vlib.model import Src
from vlib.refparse import ref_parse
from vlib.refs import DIALECTS, lead_ws

GHERKINISH = ("Given", "Scenario", "@", "#", "|", "Examples", "Feature", "*", '"""', "```", "\\\"", "\\`")


def g_docdoc(s):
    """a document whose steps (background / scenario / outline) carry doc strings with adversarial content"""
    dialect = "en" if s.int(4) else s.choice(model.DIALECT_NAMES)
    D = DIALECTS[dialect]
    doc = {"eol": s.choice(["\n", "\n", "\r\n"]), "final_eol": s.int(4) != 3, "pre": [], "pre2": [], "post": [], "lang": None, "header": None, "default": dialect}
    if s.int(2):
        # dialect selected by a header while the matcher's configured default is another one
        doc["default"] = "en" if dialect != "en" else "fr"
        doc["lang"] = dialect
        doc["header"] = "# language: " + dialect
    f = {"kw": D["feature"][0], "indent": "", "sep": " ", "name": "f", "trail": "", "pre": [], "desc": [], "tags": []}

    def steps(n):
        out = []
        for _ in range(n):
            stp = model.g_step(s, dialect, p_arg=0)
            if s.int(5):
                a = model.g_docarg(s)
                extra = s.int(4)
                for _ in range(extra):
                    a["lines"].insert(s.int(len(a["lines"]) + 1), model.g_indent(s) + s.choice(model.DOC_LINES).replace("OTHERESC", "".join("\\" + c for c in ("```" if a["delim"] == '"""' else '"""'))).replace("OTHER", "```" if a["delim"] == '"""' else '"""')
                                      .replace("ESC", "".join("\\" + c for c in a["delim"])).replace("DELIM", "x" + a["delim"]))
                stp["arg"] = a
            out.append(stp)
        return out
    f["background"] = None
    if s.int(3) == 0:
        b = model.g_titled(s, D["background"], "background", dialect, has_tags=False, p_desc=0.1)
        b["steps"] = steps(s.rng(1, 2))
        f["background"] = b
    f["scenarios"] = []
    for _ in range(s.rng(1, 2)):
        outline = s.int(3) == 0
        sc = model.g_titled(s, D["scenarioOutline"] if outline else D["scenario"], "scenario", dialect, p_desc=0.1)
        sc["steps"] = steps(s.rng(1, 3))
        sc["examples"] = [model.g_examples(s, dialect, D)] if outline else []
        f["scenarios"].append(sc)
    f["rules"] = []
    doc["feature"] = f
    return doc


def docstrings_of(doc):
    out = []
    f = doc["feature"]
    for holder in ([f["background"]] if f["background"] else []) + f["scenarios"]:
        for stp in holder["steps"]:
            if stp.get("arg") and stp["arg"]["t"] == "doc":
                out.append(stp["arg"])
    return out


def check_doc(case, stats):
    doc = case["doc"]
    r = model.render(doc)
    dss = docstrings_of(doc)
    nt = False
    for a in dss:
        k = len(a["indent"])
        looks = any(l.lstrip().startswith(GHERKINISH) for l in a["lines"])
        differs = any(l.strip() and lead_ws(l) != k for l in a["lines"])
        nt = nt or (looks and differs)
    stats.case(r.text, nt, sample={"text": r.text}, labels=["docstrings=%d" % min(len(dss), 4)] + (["crlf"] if doc["eol"] == "\r\n" else []))
    res = gh.parse(r.text, doc["default"])
    if res[0] != "ok":
        raise Violation(case, "document with doc strings rejected: %r\n%s" % (res[1][:3], r.text))
    if res[1] != r.ast:
        raise Violation(case, "AST differs from the model (doc string content / media type / delimiter, or what follows), %s\n--- text:\n%s" % (
            diff_text(res[1], r.ast, "parser", "model"), r.text))
    # the same document through a matcher that was left inside an unterminated doc string by an earlier parse
    for opener in ('   """', "  ```md"):
        m = gh.TokenMatcher(doc["default"])
        D = DIALECTS[doc["default"]]
        gh.parse("%s: f\n %s: s\n  %sx\n%s\n   never closed\n" % (D["feature"][0], D["scenario"][0], D["given"][-1], opener), matcher=m)
        res2 = gh.parse(r.text, matcher=m)
        if res2[0] != "ok" or res2[1] != r.ast:
            raise Violation(case, "with a token matcher that had been left inside an unterminated %s doc string by an earlier parse the document %s\n--- text:\n%s" % (
                opener.strip()[:3], "is rejected: %r" % (res2[1][:2],) if res2[0] != "ok" else "gives another AST, " + diff_text(res2[1], r.ast, "parser", "model"), r.text))
    ref = ref_parse(r.text, doc["default"])
    if not ref.accepted or ref.ast != r.ast:
        from vlib.common import HarnessError
        raise HarnessError("reference parser and document model disagree on %r" % r.text)


def unit_doc(a):
    stats = Stats()
    strat = st.binary(min_size=900, max_size=900).map(lambda b: {"sub": "doc", "doc": g_docdoc(Src(b))})
    hyp(stats, strat, check_doc, a["n"], shard_seed(a["seed"], a["shard"], 13))
    return stats


ALPHA = ['"', "`", "\\", " ", "x", "#", "\t"]


def check_small(case, stats):
    """one doc string whose media type / single content line is ANY short string over quote, backtick, backslash, blank, letter
    (so: lines that start with either delimiter, partial and over-long delimiters, every escape pattern); oracle = reference parser"""
    delim, ind, media, line = case["delim"], case["indent"], case["media"], case["line"]
    text = "Feature: f\n Scenario: s\n  Given x\n%s%s%s\n%s\n%s%s\n  And y\n" % (ind, delim, media, line, ind, delim)
    stats.case(text, line.lstrip().startswith(('"', "`", "\\")) or bool(media.strip()), sample={"text": text}, labels=[delim, "media" if media else "line"])
    real = gh.parse(text)
    ref = ref_parse(text)
    if ref.accepted != (real[0] == "ok"):
        raise Violation(case, "document is %s by the reference but the parser %s\n%s" % ("accepted" if ref.accepted else "rejected %r" % (ref.errors[:2],),
                                                                                         "accepts it" if real[0] == "ok" else "rejects it: %r" % (real[1][:2],), text))
    if ref.accepted and real[1] != ref.ast:
        raise Violation(case, "AST differs from the reference, %s\n%s" % (diff_text(real[1], ref.ast, "parser", "reference"), text))
    if not ref.accepted and real[1] != ref.errors:
        raise Violation(case, "errors %r, reference %r\n%s" % (real[1][:3], ref.errors[:3], text))


def unit_small(a):
    import itertools
    stats = Stats()

    def gen():
        n = 0
        for L in range(0, a["maxlen"] + 1):
            for tup in itertools.product(ALPHA, repeat=L):
                w = "".join(tup)
                for delim in ('"""', "```"):
                    for ind in ("   ", ""):
                        n += 1
                        if n % a["nshards"] != a["shard"]:
                            continue
                        yield {"sub": "small", "delim": delim, "indent": ind, "media": "", "line": "   " + w}
                        if L <= a["maxlen"] - 1:
                            yield {"sub": "small", "delim": delim, "indent": ind, "media": w, "line": "   content"}
                            yield {"sub": "small", "delim": delim, "indent": ind, "media": "", "line": w}
    from vlib.common import sweep
    sweep(stats, gen(), check_small)
    return stats


def check_raw(case, stats):
    """any text: the whole outcome (AST or errors) equals the reference parser's"""
    text = case["text"]
    if gh.names_existing_path(text):
        return
    real, ref = gh.parse(text), ref_parse(text)
    stats.case(text, '"""' in text or "```" in text, sample={"label": case.get("label")}, labels=["docstring" if ('"""' in text or "```" in text) else "no-docstring"])
    if ref.accepted != (real[0] == "ok"):
        raise Violation(case, "document is %s by the reference but the parser %s\n%s" % ("accepted" if ref.accepted else "rejected", "accepts it" if real[0] == "ok" else "rejects it: %r" % (real[1][:2],), text))
    if ref.accepted and real[1] != ref.ast:
        raise Violation(case, "AST differs from the reference, %s\n%s" % (diff_text(real[1], ref.ast, "parser", "reference"), text))


def replay(case, stats):
    if case.get("sub") == "raw":
        return check_raw(case, stats)
    if case.get("sub") == "small":
        return check_small(case, stats)
    return check_doc(case, stats)


def run(ctx):
    q = ctx.quick
    ctx.units("docstring-documents", unit_doc, [{"n": 750 if q else 7000, "seed": ctx.seed, "shard": i} for i in range(8 if q else 16)], procs=16)
    from . import magnitude
    magnitude.run_big(ctx, "c13", "check_raw", "raw")
    ctx.units("small-lines-exhaustive", unit_small, [{"maxlen": 5 if q else 7, "shard": i, "nshards": 16} for i in range(16)], procs=16)
    ctx.exhaustive = False
    ctx.extra["exhaustive_part"] = "every media type and every single content line of length <= %d over quote, backtick, backslash, blank, letter, hash, tab, for both delimiters at two indentations" % (5 if q else 7)
    ctx.rule = ("documents whose background / scenario / outline steps carry doc strings: both delimiters, any indentation relation between delimiter and "
                "content (spaces, tabs, exotic blanks), media type none/word/with blanks/starting with a quote, content lines drawn from arbitrary text and every "
                "kind of Gherkin-looking line (keywords, tags with blanks, comments, language headers, table rows, blank lines, the other delimiter, escaped and "
                "partially escaped delimiters), closing line with trailing text, followed by further steps/scenarios; oracle = whole AST equals the model "
                "(content by the indentation/unescape rule) and the reference parser. Non-trivial = some doc string has a Gherkin-looking line and a line whose "
                "indentation differs from the delimiter's; distinct = distinct text.")
    ctx.assumptions += ["content lines never start (after trimming) with the active delimiter - by construction, as the property demands"]
