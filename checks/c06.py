"""C06 - one pickle per scenario and per example row, in document order."""
from __future__ import annotations

from vlib.astgen import ast_features, st_ast
from vlib.common import Stats, Violation, hyp, shard_seed
from vlib.refcompile import all_scenarios, proj_c06, ref_compile

from . import pickles_common as pc

WHAT = "pickle count/order/name/uri/language/astNodeIds"


def check_ast(case, stats):
    doc, nid = case["doc"], case["next_id"]
    ref = ref_compile(doc, nid)
    lab = ast_features(doc)
    sources = set(p["astNodeIds"][0] for p in ref)
    nontrivial = (len(ref) >= 2 and len(sources) >= 2) or (lab["outlines"] > 0 and lab["rows"] == 0)
    stats.case(case, nontrivial, sample=case, labels=[
        l for l, c in [("header-only-table", lab["header_only"]), ("examples-without-table", lab["no_table"]),
                       ("stepless-scenario", lab["stepless"]), ("outline-in-rule", lab["outline_in_rule"]),
                       ("several-examples-blocks", lab["multi_examples"]), ("no-feature", not lab["feature"]),
                       ("rules", lab["rules"])] if c])
    real = pc.real_compile(doc, nid)
    if not isinstance(real, list) or any(not isinstance(p, dict) for p in real):
        raise Violation(case, "compile did not return a list of pickles: %r" % (real,))
    pc.compare(case, real, ref, proj_c06, WHAT)
    # model-free restatement: one pickle per example-less scenario + per body row of each table with a header
    want = []
    for sc, _ in all_scenarios(doc):
        if not sc["examples"]:
            want.append([sc["id"]])
        for ex in sc["examples"]:
            if "tableHeader" in ex:
                want += [[sc["id"], r["id"]] for r in ex["tableBody"]]
    if [p["astNodeIds"] for p in real] != want:
        raise Violation(case, "pickles point back to %r, document order demands %r" % ([p["astNodeIds"] for p in real], want))


def unit_ast(a):
    stats = Stats()
    hyp(stats, st_ast().map(lambda c: dict(c, sub="ast")), check_ast, a["n"], shard_seed(a["seed"], a["shard"], 6))
    return stats


def unit_reuse(a):
    return pc.unit_reuse(a, st_ast(), proj_c06, WHAT, 66)


def unit_golden(a):
    return pc.unit_golden(proj_c06, WHAT)


def unit_modes(a):
    return pc.unit_modes(proj_c06, WHAT)


def replay(case, stats):
    if case["sub"] == "modes":
        return pc.check_modes(case, stats, proj_c06, WHAT)
    if case["sub"] == "golden":
        return pc.replay_golden(case, proj_c06, WHAT)
    if case["sub"] in ("text", "rawtext"):
        from . import textdocs
        return textdocs.check_text(case, stats, "C06")
    if case["sub"] == "shared-compiler":
        from . import c07
        return c07.check_shared_compiler(case, stats)
    if case["sub"] == "reuse":
        return pc.check_reuse(case, stats, proj_c06, WHAT)
    return check_ast(case, stats)


def run(ctx):
    pc.calibrate()
    q = ctx.quick
    ctx.units("golden", unit_golden, [{}])
    ctx.units("interpreter-modes", unit_modes, [{}])
    ctx.units("ast-hypothesis", unit_ast, [{"n": 1500 if q else 20000, "seed": ctx.seed, "shard": i} for i in range(8 if q else 16)], procs=16)
    ctx.units("compiler-reuse", unit_reuse, [{"n": 450 if q else 4000, "seed": ctx.seed, "shard": i} for i in range(8 if q else 16)], procs=16)
    from . import textdocs
    textdocs.run_text(ctx, "C06")
    ctx.rule = ("ASTs drawn by Hypothesis (features with 0..3 scenarios and 0..3 rules, 0..3 steps, 0..3 examples blocks each "
                "without table / header only / 1..3 rows, tags anywhere) and documents returned by the parser for generated "
                "texts, compiled by the real compiler and by the reference; non-trivial = at least 2 pickles from at least 2 "
                "different scenarios, or an outline yielding no pickle; distinct = distinct AST / text.")
    ctx.assumptions += ["reference compiler vlib/refcompile.py (calibrated: reproduces all golden pickle files on this run)"]
