"""Pickle properties on documents the parser returns for generated texts (domain (b) of C06-C10)."""
from __future__ import annotations

from vlib import gh, model
from vlib.astgen import ast_features
from vlib.common import Stats, Violation, hyp, shard_seed
from vlib.refcompile import proj_c06, proj_c07, proj_c08, proj_c10, ref_compile

from . import pickles_common as pc

URI = "./dir/some file.feature"


def proj_c09(pk):
    return [{"name": p.get("name"), "steps": [{k: s.get(k) for k in ("text", "argument")} for s in p.get("steps", [])]} for p in pk]


PROJ = {"C06": proj_c06, "C07": proj_c07, "C08": proj_c08, "C09": proj_c09, "C10": proj_c10}


def nontrivial(pid, lab, ref):
    if pid == "C06":
        return len(ref) >= 2 and len({p["astNodeIds"][0] for p in ref}) >= 2
    if pid == "C07":
        return lab["fbg"] and (lab["rule_bgs"] >= 1 or lab["args"] >= 1)
    if pid == "C08":
        return len(lab["tag_levels"]) >= 2
    if pid == "C09":
        return lab["rows"] >= 1
    if pid == "C10":
        return any(s["type"] != "Unknown" for p in ref for s in p["steps"]) and lab["fbg"]
    return True


def check_text(case, stats, pid):
    r = model.render(case["doc"])
    ast = dict(r.ast, uri=URI)
    nid = pc.max_id(ast) + 1
    ref = ref_compile(ast, nid)
    lab = ast_features(ast)
    stats.case(r.text, nontrivial(pid, lab, ref), sample={"text": r.text}, labels=["pickles=%d" % min(len(ref), 5)])
    res = gh.parse_and_compile(r.text, case["doc"]["default"], uri=URI)
    if res[0] != "ok":
        raise Violation(case, "well-formed document rejected: %r\n%s" % (res[1][:3], r.text))
    pc.compare(case, res[2], ref, PROJ[pid], "pickles of a parsed document\n" + r.text)
    if case["doc"]["default"] == "en" and len(r.text) % 3 == 0:
        # the same pickles when they are asked for through the stream API: Options(print_source, print_ast, print_pickles) given by position
        ev = gh.GherkinEvents(gh.GherkinEvents.Options(False, False, True))
        out = list(ev.enum({"source": {"uri": URI, "data": r.text, "mediaType": "text/x.cucumber.gherkin+plain"}}))
        if any(list(e) != ["pickle"] for e in out):
            raise Violation(case, "a stream asked for pickles only yields %r\n%s" % ([list(e) for e in out][:4], r.text))
        pc.compare(case, [e["pickle"] for e in out], ref, PROJ[pid], "pickles of a document sent through the stream API (pickles only)\n" + r.text)


def check_rawtext(case, stats):
    """any text (here: the magnitude families): pickles of the parsed document vs reference parser + reference compiler"""
    from vlib.refparse import ref_parse
    pid = case["pid"]
    text = case["text"]
    if gh.names_existing_path(text):
        return
    ref = ref_parse(text)
    if not ref.accepted:
        stats.label("rejected-skipped")
        return
    ast = dict(ref.ast, uri=URI)
    want = ref_compile(ast, pc.max_id(ast) + 1)
    stats.case(text, len(want) >= 10, sample={"label": case.get("label"), "pickles": len(want)}, labels=["pickles>=10" if len(want) >= 10 else "pickles<10"])
    res = gh.parse_and_compile(text, uri=URI)
    if res[0] != "ok":
        raise Violation(case, "document accepted by the reference parser is rejected: %r" % (res[1][:2],))
    pc.compare(case, res[2], want, PROJ[pid], "pickles of %s" % case.get("label", "a parsed document"))


def unit_text(a):
    stats = Stats()
    pid = a["pid"]
    strat = model.st_doc().map(lambda d: {"sub": "text", "doc": d})
    hyp(stats, strat, lambda c, s: check_text(c, s, pid), a["n"], shard_seed(a["seed"], a["shard"], 50 + int(pid[1:])))
    return stats


def run_text(ctx, pid):
    q = ctx.quick
    from . import magnitude
    magnitude.run_big(ctx, "textdocs_impl", "check_rawtext", "rawtext", extra={"pid": pid})
    ctx.units("parsed-model-documents", unit_text, [{"pid": pid, "n": 600 if q else 5000, "seed": ctx.seed, "shard": i} for i in range(8 if q else 16)], procs=16)
