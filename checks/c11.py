"""C11 - ids are unique, dense, canonically ordered; every pickle reference resolves."""
from __future__ import annotations

import collections

from hypothesis import strategies as st

from vlib import gh, model, noisy
from vlib.common import Stats, Violation, diff_text, hyp, shard_seed, sweep
from vlib.model import Src
from vlib.refcompile import proj_ids, ref_compile

URI = "u.feature"


def collect_ids(x, acc):
    if isinstance(x, dict):
        for k, v in x.items():
            if k == "id":
                acc.append(v)
            else:
                collect_ids(v, acc)
    elif isinstance(x, list):
        for v in x:
            collect_ids(v, acc)
    return acc


def shift_ids(x, base):
    if isinstance(x, dict):
        return {k: (str(int(v) - base) if k in ("id", "astNodeId") else [str(int(i) - base) for i in v] if k == "astNodeIds" else shift_ids(v, base))
                for k, v in x.items()}
    if isinstance(x, list):
        return [shift_ids(v, base) for v in x]
    return x


def integrity(case, doc, pickles):
    """every id a pickle mentions resolves to an AST node of the right kind (model-free)"""
    f = doc.get("feature")
    scen = {}
    tagname = {}

    def tags(ts):
        for t in ts:
            tagname[t["id"]] = t["name"]
        return [t["id"] for t in ts]

    if f:
        ftags = tags(f["tags"])
        fbg = []
        for ch in f["children"]:
            if "background" in ch:
                fbg += [s["id"] for s in ch["background"]["steps"]]
            elif "scenario" in ch:
                sc = ch["scenario"]
                scen[sc["id"]] = (sc, list(fbg), ftags + tags(sc["tags"]))
            else:
                r = ch["rule"]
                rt = tags(r["tags"])
                rbg = list(fbg)
                for c2 in r["children"]:
                    if "background" in c2:
                        rbg += [s["id"] for s in c2["background"]["steps"]]
                    else:
                        sc = c2["scenario"]
                        scen[sc["id"]] = (sc, list(rbg), ftags + rt + tags(sc["tags"]))
    for p in pickles:
        n = p.get("astNodeIds")
        if not isinstance(n, list) or not (1 <= len(n) <= 2) or n[0] not in scen:
            raise Violation(case, "pickle %r: astNodeIds %r does not start with a scenario id" % (p.get("id"), n))
        sc, bg, anc = scen[n[0]]
        rows = {}
        for ex in sc["examples"]:
            et = tags(ex["tags"])
            for r in ex["tableBody"]:
                rows[r["id"]] = et
        if len(n) == 2 and n[1] not in rows:
            raise Violation(case, "pickle %r: %r is not a body row of an examples table of scenario %r" % (p["id"], n[1], n[0]))
        if len(n) == 1 and sc["examples"]:
            raise Violation(case, "pickle %r made from an outline does not name its example row" % (p["id"],))
        own = [s["id"] for s in sc["steps"]]
        for s in p["steps"]:
            m = s.get("astNodeIds")
            if not isinstance(m, list) or not m or (m[0] not in own and m[0] not in bg):
                raise Violation(case, "pickle step %r points to %r which is neither a step of scenario %r nor of an in-scope background" % (s.get("id"), m, n[0]))
            if m[0] in own and m[1:] != n[1:]:
                raise Violation(case, "pickle step %r of an example row points to %r, the pickle's row is %r" % (s["id"], m, n[1:]))
            if m[0] not in own and len(m) != 1:
                raise Violation(case, "background pickle step %r carries extra references %r" % (s["id"], m))
        allowed = anc + (rows[n[1]] if len(n) == 2 else [])
        for t in p["tags"]:
            if t.get("astNodeId") not in allowed or tagname.get(t["astNodeId"]) != t.get("name"):
                raise Violation(case, "pickle tag %r does not resolve to a tag of an ancestor with the same name" % (t,))


def check_fresh(case, stats):
    if "doc" in case:
        r = model.render(case["doc"])
        text, dflt, intended = r.text, case["doc"]["default"], r.ast
    else:
        text, dflt, intended = case["text"], case.get("default", "en"), None
        if gh.names_existing_path(text):
            stats.label("excluded_known_F1")
            return
    res = gh.parse_and_compile(text, dflt, uri=URI)
    if res[0] != "ok":
        if intended is not None:
            raise Violation(case, "well-formed document rejected: %r" % (res[1][:2],))
        stats.label("rejected-skipped")
        return
    doc, pickles = res[1], res[2]
    ids = collect_ids(doc, []) + collect_ids(pickles, [])
    kinds = sum(1 for k in ('"tags": [{', '"steps": [{', '"tableBody": [{', '"examples": [{') if k in __import__("json").dumps(doc))
    stats.case(text, kinds >= 3, sample={"text": text}, labels=["ids=%d" % min(len(ids) // 10 * 10, 50)])
    if sorted(ids, key=lambda s: int(s) if isinstance(s, str) and s.isdigit() else -1) != [str(i) for i in range(len(ids))]:
        c = collections.Counter(ids)
        dup = [i for i, n in c.items() if n > 1]
        raise Violation(case, "ids of one document with a fresh generator are not exactly 0..%d: duplicates %r, all %r\n%s" % (len(ids) - 1, dup[:5], ids[:40], text))
    if intended is not None:
        a = dict(doc)
        a.pop("uri")
        if a != intended:
            raise Violation(case, "ids/AST differ from the canonical order, %s\n%s" % (diff_text(a, intended, "parser", "canonical"), text))
    ref = ref_compile(doc, len(collect_ids(doc, [])))
    if proj_ids(pickles) != proj_ids(ref):
        raise Violation(case, "pickle / pickle-step ids %r, canonical order (steps before their pickle) gives %r" % (proj_ids(pickles)[:4], proj_ids(ref)[:4]))
    integrity(case, doc, pickles)
    # a caller-supplied generator that is a subclass with its own numbering: every id of AST and pickles comes from it, in the same order
    class Prefixed(gh.IdGenerator):
        def __init__(self):
            super().__init__()
            self.n = 0

        def get_next_id(self):
            self.n += 1
            return "id-%d" % (self.n * 3)
    class Duck:
        """not an IdGenerator subclass at all: any object with get_next_id() (a locking wrapper, the caller's own numbering)"""
        def __init__(self):
            self.n = 0

        def get_next_id(self):
            self.n += 1
            return "id-%d" % (self.n * 3)
    g = Prefixed()  # (a duck-typed generator that is no IdGenerator at all is outside the typed contract - tried for one round, removed)
    r2 = gh.parse(text, dflt, builder=gh.AstBuilder(g))
    if r2[0] == "ok":
        d2 = dict(r2[1], uri=URI)
        p2 = gh.Compiler(g).compile(d2)
        ren = lambda x: (lambda v: "id-%d" % ((int(v) + 1) * 3))
        def rename(x):
            if isinstance(x, dict):
                return {k: ("id-%d" % ((int(v) + 1) * 3) if k in ("id", "astNodeId") else ["id-%d" % ((int(i) + 1) * 3) for i in v] if k == "astNodeIds" else rename(v)) for k, v in x.items()}
            if isinstance(x, list):
                return [rename(v) for v in x]
            return x
        if d2 != rename(doc) or p2 != rename(pickles):
            raise Violation(case, "with a generator subclass that numbers differently, ids are not simply the renamed ids of the standard run: %s" % (
                diff_text([d2, p2], [rename(doc), rename(pickles)], "subclass run", "renamed standard run")))


def check_many_ids(case, stats):
    """one generator hands out far more ids than any block size someone might pick (70 000 table rows): dense, in order, references resolve"""
    n = case["rows"]
    text = "Feature: f\n Scenario: s\n  Given t\n" + "   | r |\n" * n + " Scenario Outline: o\n  Given <a>\n  Examples:\n   | a |\n" + "   | v |\n" * 40
    stats.case(("many-ids", n), True, sample=case)
    r = gh.parse_and_compile(text)
    if r[0] != "ok":
        raise Violation(case, "document with %d table rows rejected: %r" % (n, r[1][:2]))
    doc, pickles = r[1], r[2]
    rows = doc["feature"]["children"][0]["scenario"]["steps"][0]["dataTable"]["rows"]
    ids = [int(x["id"]) for x in rows]
    if ids != list(range(n)):
        i = next(i for i, v in enumerate(ids) if v != i)
        raise Violation(case, "table row #%d of %d has id %d (ids are handed out 0, 1, 2, ... without gaps)" % (i, n, ids[i]))
    allids = sorted(int(x) for x in collect_ids([{"gherkinDocument": doc}] + [{"pickle": p} for p in pickles], []))
    if allids != list(range(len(allids))):
        raise Violation(case, "ids of a document with %d rows are not 0..%d without gaps (first gap near %d)" % (n, len(allids) - 1, next(i for i, v in enumerate(allids) if v != i)))


def unit_many_ids(a):
    stats = Stats()
    sweep(stats, [{"sub": "many-ids", "rows": n, "budget_s": 120} for n in a["rows"]], check_many_ids)
    return stats


def unit_fresh(a):
    stats = Stats()
    hyp(stats, model.st_doc().map(lambda d: {"sub": "fresh", "doc": d}), check_fresh, a["n"], shard_seed(a["seed"], a["shard"], 11))
    return stats


def unit_noisy(a):
    stats = Stats()
    strat = noisy.st_noisy().map(lambda x: {"sub": "fresh", "text": x[0], "default": x[1]})
    hyp(stats, strat, check_fresh, a["n"], shard_seed(a["seed"], a["shard"], 12))
    return stats


def unit_corpus(a):
    stats = Stats()
    sweep(stats, [{"sub": "fresh", "text": t} for n, t in noisy.corpus_texts()], check_fresh)
    return stats


# ------------------------------------------------------------------ default-constructed objects: every fresh one starts at 0
def check_defaults(case, stats):
    text = case["text"]
    stats.case(text, True, sample=case)
    for attempt in range(3):
        p = gh.Parser()           # default AstBuilder with its own default IdGenerator
        c = gh.Compiler()         # default IdGenerator of its own
        doc = p.parse(text)
        ids = sorted(int(x) for x in collect_ids(doc, []))
        if ids != list(range(len(ids))):
            raise Violation(case, "a freshly constructed Parser() (attempt %d in this process) hands out AST ids %r, expected 0..%d" % (attempt + 1, ids[:12], len(ids) - 1))
        pk = c.compile(dict(doc, uri="u"))
        pids = sorted(int(x) for x in collect_ids(pk, []))
        if pids != list(range(len(pids))):
            raise Violation(case, "a freshly constructed Compiler() (attempt %d in this process) hands out pickle ids %r, expected 0..%d" % (attempt + 1, pids[:12], len(pids) - 1))
        ev = gh.GherkinEvents(gh.GherkinEvents.Options(False, True, True))
        out = list(ev.enum({"source": {"uri": "u", "data": text, "mediaType": "text/x.cucumber.gherkin+plain"}}))
        eids = sorted(int(x) for x in collect_ids(out, []))
        if eids != list(range(len(eids))):
            raise Violation(case, "a freshly constructed GherkinEvents (attempt %d) hands out ids %r, expected 0..%d" % (attempt + 1, eids[:12], len(eids) - 1))


def check_script_ids(case, stats):
    """scripts.generate_events over several files in one invocation: one stream, ids pairwise distinct"""
    import contextlib
    import io
    import json
    import os
    import sys
    import scripts.generate_events as ge
    paths = []
    for i, t in enumerate(case["texts"]):
        p = "ids%d-%d.feature" % (os.getpid(), i)
        with open(p, "w", encoding="utf8", newline="") as f:
            f.write(t)
        paths.append(p)
    buf = io.StringIO()
    old = sys.argv
    sys.argv = ["generate_events"] + paths
    try:
        with contextlib.redirect_stdout(buf):
            ge.main()
    finally:
        sys.argv = old
        for p in paths:
            os.unlink(p)
    envs = [json.loads(l) for l in buf.getvalue().splitlines() if l.strip()]
    ids = collect_ids([e for e in envs if "source" not in e], [])
    stats.case(tuple(case["texts"]), True, sample={"files": len(paths), "ids": len(ids)})
    if len(set(ids)) != len(ids) or sorted(int(x) for x in ids) != list(range(len(ids))):
        raise Violation(case, "generate_events over %d files in one run hands out ids %r (must be pairwise distinct and dense over the whole stream)" % (len(paths), sorted(ids, key=int)[:20]))


def unit_defaults(a):
    stats = Stats()
    docs = ["Feature: a\n @t\n Scenario: one\n  Given x\n", "Feature: b\n Scenario Outline: two <v>\n  When y <v>\n  Examples:\n   | v |\n   | 1 |\n", "Feature: c\n"]
    sweep(stats, [{"sub": "script-ids", "texts": docs}, {"sub": "script-ids", "texts": docs[::-1] + docs[:1]}], check_script_ids)
    texts = ["Feature: f\n Scenario: s\n  Given x\n", "@t\nFeature: f\n Background:\n  Given b\n @s\n Scenario Outline: o\n  And <a>\n   | <a> |\n  Examples:\n   | a |\n   | 1 |\n   | 2 |\n",
             "Feature: f\n Rule: r\n  Scenario: s\n   * x\n    \"\"\"\n    d\n    \"\"\"\n"]
    sweep(stats, [{"sub": "defaults", "text": t} for t in texts], check_defaults)
    return stats


# ------------------------------------------------------------------ histories through one shared generator
def run_stream(ev, text):
    out = list(ev.enum({"source": {"uri": URI, "data": text, "mediaType": "text/x.cucumber.gherkin+plain"}}))
    if any("parseError" in e for e in out):
        return None
    return [e for e in out if "source" not in e]


def run_pair(parser, compiler, text):
    r = gh.parse(text, parser=parser)
    if r[0] != "ok":
        return None
    doc = dict(r[1], uri=URI)
    return [{"gherkinDocument": doc}] + [{"pickle": p} for p in compiler.compile(doc)]


def check_history(case, stats):
    texts = case["texts"]
    if any(gh.names_existing_path(t) for t in texts):
        stats.label("excluded_known_F1")
        return
    if case["api"] == "stream":
        late = case.get("late_pickles")
        ev = gh.GherkinEvents(gh.GherkinEvents.Options(True, True, late is None))
        counter = [0]

        def run(t):
            # the options object is the caller's: switching pickles on for the later sources of a running stream
            if late is not None and counter[0] == late:
                ev.options.print_pickles = True
            counter[0] += 1
            if counter[0] - 1 in case.get("abandon", []):
                # the consumer takes the first envelopes of this source only (source, document, maybe one pickle) and closes the generator
                gen = ev.enum({"source": {"uri": URI, "data": t, "mediaType": "text/x.cucumber.gherkin+plain"}})
                got = []
                for e in gen:
                    got.append(e)
                    if len(got) >= case.get("take", 2):
                        break
                gen.close()
                return ("partial", [e for e in got if "source" not in e])
            if counter[0] - 1 in case.get("in_thread", []):
                # this source is pulled through the stream by a worker thread (one at a time - no concurrency), the others by the main thread
                import threading
                box = []
                th = threading.Thread(target=lambda: box.append(run_stream(ev, t)))
                th.start()
                th.join(120)
                if not box:
                    raise Violation(case, "the stream did not finish source #%d when driven from a worker thread" % (counter[0] - 1))
                return box[0]
            return run_stream(ev, t)
        fresh = lambda t: run_stream(gh.GherkinEvents(gh.GherkinEvents.Options(True, True, True)), t)
    else:
        g = gh.IdGenerator()
        parser, compiler = gh.Parser(gh.AstBuilder(g)), gh.Compiler(g)
        run = lambda t: run_pair(parser, compiler, t)

        def fresh(t):
            g2 = gh.IdGenerator()
            return run_pair(gh.Parser(gh.AstBuilder(g2)), gh.Compiler(g2), t)
    seen = {}
    outcomes = []
    for i, t in enumerate(texts):
        if case["api"] == "pair" and i in case.get("new_generator_before", []):
            # the id generator is a public attribute of builder and compiler: give the re-used pair a brand-new shared one
            g = gh.IdGenerator()
            parser.ast_builder.id_generator = g
            compiler.id_generator = g
            seen = {}
        out = run(t)
        if isinstance(out, tuple):
            # whatever was delivered before the consumer walked away keeps its ids for the rest of the stream
            outcomes.append("partial")
            for x in [int(x) for x in collect_ids(out[1], [])]:
                if x in seen:
                    raise Violation(case, "id %d delivered for (abandoned) document #%d was already used for document #%d of the same stream" % (x, i, seen[x]))
                seen[x] = i
            continue
        outcomes.append("acc" if out is not None else "rej")
        if out is None:
            continue
        ids = [int(x) for x in collect_ids(out, [])]
        for x in ids:
            if x in seen:
                raise Violation(case, "id %d handed out for document #%d was already used for document #%d of the same history" % (x, i, seen[x]))
            seen[x] = i
        if ids:
            base = min(ids)
            if case["api"] == "pair" and i in case.get("new_generator_before", []) and base != 0:
                raise Violation(case, "document #%d was processed right after its parser/compiler got a fresh id generator, yet its ids start at %d" % (i, base))
            if sorted(ids) != list(range(base, base + len(ids))):
                raise Violation(case, "ids of document #%d are not contiguous: %r" % (i, sorted(ids)[:30]))
            f = fresh(t)
            if case["api"] == "stream" and case.get("late_pickles") is not None and not any("pickle" in e for e in out):
                f = [e for e in f if "pickle" not in e]
            if shift_ids(out, base) != f:
                raise Violation(case, "document #%d of the history differs from a fresh run after subtracting the id offset %d, %s" % (i, base, diff_text(shift_ids(out, base), f, "history", "fresh")))
    nt = any(outcomes[i] == "rej" and "acc" in outcomes[:i] and "acc" in outcomes[i + 1:] for i in range(len(outcomes)))
    stats.case(case, nt, sample={"api": case["api"], "outcomes": outcomes, "first_text": texts[0][:200]}, labels=[case["api"], "len=%d" % len(texts)])


def g_history(s):
    n = s.rng(2, 5)
    texts = []
    for _ in range(n):
        if s.int(3) == 0:
            texts.append(s.choice(["", "Feature: f\n  Scenario: s\n    Given x\n      | a | b |\n      | c |\n", "garbage\n", "Feature: f\n @a b\n Scenario: s\n",
                                   "#language: zz\nFeature: f\n", "Feature: f\n  Scenario Outline: o\n   Given <a>\n   Examples:\n    | a |\n    | 1 |\n    | 2 |\n",
                                   "@t\nFeature: f\n @u\n Scenario: s\n  Given x\n   \"\"\"\n   open"]))
        else:
            texts.append(noisy.g_noisy(s)[0])
    return {"sub": "history", "api": s.choice(["stream", "pair"]), "texts": texts, "new_generator_before": [], "late_pickles": None, "abandon": [i for i in range(n - 1) if s.int(4) == 0], "take": s.rng(1, 4), "in_thread": [i for i in range(n) if s.int(4) == 0]}


def unit_history(a):
    stats = Stats()
    strat = st.binary(min_size=3000, max_size=3000).map(lambda b: g_history(Src(b)))
    hyp(stats, strat, check_history, a["n"], shard_seed(a["seed"], a["shard"], 111))
    return stats


def replay(case, stats):
    if case.get("sub") == "many-ids":
        return check_many_ids(case, stats)
    return {"fresh": check_fresh, "history": check_history, "defaults": check_defaults, "script-ids": check_script_ids}[case["sub"]](case, stats)


def run(ctx):
    q = ctx.quick
    ctx.units("corpus", unit_corpus, [{}])
    ctx.units("default-generators", unit_defaults, [{}])
    ctx.units("many-ids", unit_many_ids, [{"rows": [70000] if q else [70000, 140000]}])
    from . import magnitude
    magnitude.run_big(ctx, "c11", "check_fresh", "fresh")
    ctx.units("fresh-generator-model-docs", unit_fresh, [{"n": 600 if q else 6000, "seed": ctx.seed, "shard": i} for i in range(8 if q else 16)], procs=16)
    ctx.units("fresh-generator-noisy-docs", unit_noisy, [{"n": 600 if q else 6000, "seed": ctx.seed, "shard": i} for i in range(8 if q else 16)], procs=16)
    ctx.units("histories-shared-generator", unit_history, [{"n": 300 if q else 2500, "seed": ctx.seed, "shard": i} for i in range(8 if q else 16)], procs=16)
    ctx.rule = ("fresh generator: for generated, noisy-accepted and corpus documents the multiset of all id fields of AST and pickles is exactly {0..n-1}, AST ids "
                "equal the canonical order rendered by the model, pickle ids equal the reference compiler's (steps before their pickle), and every reference "
                "resolves (scenario / body row of that scenario / step of that scenario or in-scope background / ancestor tag with the same name). Histories: "
                "2..5 documents (valid, mutated, rejected) through one GherkinEvents or one Parser+Compiler pair sharing an IdGenerator: ids pairwise distinct "
                "across the history, contiguous per document, and equal to a fresh run after subtracting the offset. Non-trivial = >=3 node kinds compete for ids "
                "/ a rejected document between two accepted ones; distinct = distinct text / history.")
    ctx.assumptions += ["histories are generated as operation lists (equivalent to a rule-based state machine with a single 'feed' rule) so that a failing history is a replayable JSON case"]
