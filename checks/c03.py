"""C03 - the AST carries every element of the document once, in order, with exact text."""
from __future__ import annotations

import glob
import json
import os

from vlib import gh, model
from vlib.common import REPO, Stats, Violation, diff_text, hyp, shard_seed, sweep


def nontrivial_doc(lab):
    return lab["scenarios"] >= 2 and (lab["rules"] or lab["backgrounds"] or lab["examples"] or lab["tables"] or lab["docstrings"]
                                      or lab["descriptions"] or lab["tags"])


def labels_of(lab):
    out = []
    for k in ("rules", "second_examples", "desc_kwlike", "desc_trailing_ws", "desc_comment_only", "docstrings", "tables", "backgrounds", "crlf", "header"):
        if lab[k]:
            out.append(k)
    if lab["dialect"] != "en":
        out.append("non-en")
    return out


def check_model(case, stats):
    doc = case["doc"]
    r = model.render(doc)
    lab = model.doc_features(doc)
    stats.case(r.text, nontrivial_doc(lab), sample={"text": r.text}, labels=labels_of(lab))
    parser = gh.Parser(gh.AstBuilder(gh.IdGenerator()))
    matcher = gh.TokenMatcher(doc["default"])
    res = gh.parse(r.text, parser=parser, matcher=matcher)
    if res[0] == "ok":
        # the same parser goes on to another document: what was returned for this one must stay as it was
        gh.parse("# another comment\n@other\nFeature: other\n # c2\n Scenario: o\n  Given o\n   | o |\n", parser=parser, matcher=gh.TokenMatcher("en"))
    if res[0] != "ok":
        raise Violation(case, "well-formed document rejected: %r\n%s" % (res[1][:3], r.text))
    if res[1] != r.ast:
        raise Violation(case, "AST differs from the document the text was rendered from, %s\n--- text:\n%s" % (
            diff_text(res[1], r.ast, "parser", "model"), r.text))
    # the other ways in: stop-at-first-error mode, and a TokenScanner object instead of the text
    res2 = gh.parse(r.text, doc["default"], stop=True)
    if res2[0] != "ok" or res2[1] != r.ast:
        raise Violation(case, "in stop-at-first-error mode the well-formed document %s\n--- text:\n%s" % (
            "is rejected: %r" % (res2[1][:2],) if res2[0] != "ok" else "gives another AST, " + diff_text(res2[1], r.ast, "parser", "model"), r.text))
    if not gh.names_existing_path(r.text):
        scanner = gh.TokenScanner(r.text)
        res3 = gh.parse(scanner, doc["default"])
        if res3[0] != "ok" or res3[1] != r.ast:
            raise Violation(case, "given a TokenScanner object instead of the text the document %s\n--- text:\n%s" % (
                "is rejected: %r" % (res3[1][:2],) if res3[0] != "ok" else "gives another AST, " + diff_text(res3[1], r.ast, "parser", "model"), r.text))


def unit_model(a):
    stats = Stats()
    strat = model.st_doc().map(lambda d: {"sub": "model", "doc": d})
    hyp(stats, strat, check_model, a["n"], shard_seed(a["seed"], a["shard"], 3))
    stats.notes["unsound_discarded"] = model.COUNTS["unsound_discarded"]
    return stats


def golden_files():
    return sorted(f for f in glob.glob(os.path.join(REPO, "testdata", "good", "*.feature")) if os.path.exists(f + ".ast.ndjson"))


def check_golden(case, stats):
    f = os.path.join(REPO, "testdata", "good", case["file"])
    text = open(f, encoding="utf8", newline="").read()
    exp = json.loads(open(f + ".ast.ndjson", encoding="utf8").readline())["gherkinDocument"]
    exp.pop("uri", None)
    stats.case(case["file"], len(text.splitlines()) > 5, sample=case)
    res = gh.parse(text)
    if res[0] != "ok":
        raise Violation(case, "golden document rejected: %r" % (res[1],))
    if res[1] != exp:
        raise Violation(case, "AST of %s differs from the golden AST, %s" % (case["file"], diff_text(res[1], exp, "parser", "golden")))


def unit_golden(a):
    stats = Stats()
    sweep(stats, [{"sub": "golden", "file": os.path.basename(f)} for f in golden_files()], check_golden)
    return stats


def replay(case, stats):
    if case["sub"] == "noisy":
        from . import c03_noisy
        return c03_noisy.check_noisy(case, stats)
    return {"model": check_model, "golden": check_golden}[case["sub"]](case, stats)


def run(ctx):
    q = ctx.quick
    ctx.units("golden-asts", unit_golden, [{}])
    ctx.units("model-documents", unit_model, [{"n": 1200 if q else 8000, "seed": ctx.seed, "shard": i} for i in range(8 if q else 16)], procs=16)
    from . import magnitude
    magnitude.run_big(ctx, "c03_noisy", "check_noisy", "noisy")
    try:
        from . import c03_noisy
        c03_noisy.run_noisy(ctx)
    except ImportError:
        pass
    ctx.rule = ("documents decoded from Hypothesis-drawn bytes into a structured model (all 80 dialects, header or configured default, tags, "
                "descriptions with keyword-looking decoys/comments/blank lines, backgrounds, scenarios, outlines with 0..2 examples blocks, rules, "
                "steps with data tables and doc strings, Unicode text, exotic blanks, CRLF/LF, final newline or not); the renderer emits the text and "
                "the intended AST; oracle = exact dictionary equality (ids and locations included); plus every golden AST of the acceptance corpus. "
                "Non-trivial = >=2 scenarios and at least one of rule/background/examples/step argument/description/tag; distinct = distinct text.")
    ctx.assumptions += ["document model/renderer vlib/model.py and reference lexer vlib/refs.py are the oracle",
                        "whitespace = str.isspace(); lines end at LF"]
