"""Shared sub-check: deterministic documents whose counts / line numbers / columns / ids cross digit boundaries."""
from __future__ import annotations

from vlib import noisy
from vlib.common import Stats, sweep


def unit_big(a):
    """a = {'module': check module name, 'sub': case sub name, 'thorough': bool, 'shard', 'nshards'}"""
    import importlib
    mod = importlib.import_module("checks." + a["module"])
    stats = Stats()
    docs = noisy.big_documents(a["thorough"]) + noisy.length_boundary_documents(a["thorough"])
    cases = [dict({"sub": a["sub"], "text": t, "label": "magnitude:" + n}, **a.get("extra", {})) for i, (n, t) in enumerate(docs) if i % a["nshards"] == a["shard"]]
    sweep(stats, cases, getattr(mod, a["oracle"]))
    return stats


def run_big(ctx, module, oracle, sub, extra=None):
    ns = 16
    ctx.units("magnitude-documents", unit_big, [{"module": module, "oracle": oracle, "sub": sub, "thorough": not ctx.quick, "shard": i, "nshards": ns, "extra": extra or {}}
                                                for i in range(ns)], procs=ns)
