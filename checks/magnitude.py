"""Shared sub-check: deterministic documents whose counts / line numbers / columns / ids cross digit boundaries."""
from __future__ import annotations

from vlib import noisy
from vlib.common import Stats, sweep


def unit_big(a):
    """a = {'module': check module name, 'sub': case sub name, 'thorough': bool, 'shard', 'nshards'}"""
    import importlib
    mod = importlib.import_module("checks." + a["module"])
    stats = Stats()
    docs = noisy.big_documents(a["thorough"]) + noisy.length_boundary_documents(a["thorough"])
    cases = [dict({"sub": a["sub"], "text": t, "label": "magnitude:" + n}, **a.get("extra", {})) for i, (n, t) in enumerate(docs) if i % a["nshards"] == a["shard"]]
    sweep(stats, cases, getattr(mod, a["oracle"]))
    return stats


TAILS = [
    [],
    ["  Scenario: t", "    Given y"],
    [" @u", "  Scenario: t", "    Given y"],
    [" @u", "", "  # c", " @v", "  Scenario Outline: o", "    Given <a>", "   @e", "   Examples:", "     | a |", "     | 1 |"],
    [" @r", " Rule: r2", "  Background:", "    Given rb", "  @s", "  Scenario: z", "    Given w"],
    [" Rule: r2", "  Scenario: z", "    Given w"],
    ["   @e", "   Examples: x", "     | a |", "     | 2 |", "  Scenario: after", "    Given z"],
    ["    And more", '     """', "      doc", '     """', "    And table", "     | c |"],
    ["  # c", "", " @u", " Rule: r3"],
    ["   Examples:", "   @e2", "   Examples: second", "     | a |", "  @n", "  Scenario: next"],
]
_TRANSITION_DOCS = None
_ALL_DOCS = None


def transition_documents(accepted_only=True):
    """for every parser state (shortest real-text prefix reaching it), every kind of line, and a handful of continuations that exercise each
    look-ahead outcome (tags for a scenario / an examples block / a rule, with and without comment and blank lines): the documents the
    reference parser ACCEPTS.  Random structure rarely reaches the deeper states (a rule whose background ends in a doc string, followed by
    a tagged rule ...); this makes every transition of the generated parser part of every text-level check."""
    global _TRANSITION_DOCS
    if not accepted_only:
        transition_documents()
        return _ALL_DOCS
    if _TRANSITION_DOCS is None:
        from vlib.refparse import ref_parse
        from .c14 import SAMPLE, witnesses
        from vlib.refs import KINDS
        out, seen, every = [], set(), []
        for s, pre in sorted(witnesses().items()):
            for k in KINDS[1:]:
                for ti, tail in enumerate(TAILS):
                    text = "\n".join(pre + [SAMPLE[k]] + tail) + "\n"
                    if text in seen:
                        continue
                    seen.add(text)
                    every.append(("state-%d-%s-tail%d" % (s, k, ti), text))
                    if ref_parse(text).accepted:
                        out.append(("state-%d-%s-tail%d" % (s, k, ti), text))
        _TRANSITION_DOCS = out
        globals()["_ALL_DOCS"] = every
    return _TRANSITION_DOCS


def unit_transitions(a):
    import importlib
    mod = importlib.import_module("checks." + a["module"])
    stats = Stats()
    docs = transition_documents()
    stats.notes["accepted_transition_documents"] = len(docs)
    cases = [dict({"sub": a["sub"], "text": t, "label": "transition:" + n}, **a.get("extra", {})) for i, (n, t) in enumerate(docs) if i % a["nshards"] == a["shard"]]
    sweep(stats, cases, getattr(mod, a["oracle"]))
    return stats


def run_big(ctx, module, oracle, sub, extra=None):
    ns = 16
    ctx.units("transition-documents", unit_transitions, [{"module": module, "oracle": oracle, "sub": sub, "shard": i, "nshards": ns, "extra": extra or {}} for i in range(ns)], procs=ns)
    ctx.units("magnitude-documents", unit_big, [{"module": module, "oracle": oracle, "sub": sub, "thorough": not ctx.quick, "shard": i, "nshards": ns, "extra": extra or {}}
                                                for i in range(ns)], procs=ns)
