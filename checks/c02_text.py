"""C02 layer 3c: real text through the real parser and matcher with a recording builder, against the reference parser's derivation."""
from __future__ import annotations

from vlib import gh, model, noisy, tables
from vlib.instr import RecordingAstBuilder
from vlib.common import Stats, Violation, hyp, shard_seed
from vlib.refparse import ref_parse


def check_text(case, stats):
    text, dflt = case["text"], case.get("default", "en")
    if gh.names_existing_path(text):
        stats.label("excluded_known_F1")
        return
    ref = ref_parse(text, dflt)
    b = RecordingAstBuilder()
    real = gh.parse(text, dflt, builder=b)
    stats.case(text, len(set(ref.states)) >= 4, sample={"text": text}, labels=["accepted" if ref.accepted else "rejected", case.get("label", "-")])
    if (real[0] == "ok") != ref.accepted:
        raise Violation(case, "document is %s of the grammar but the parser %s it\n%s" % (
            "a sentence" if ref.accepted else "not a sentence", "accepts" if real[0] == "ok" else "rejects", text))
    if ref.accepted:
        if [tuple(e) for e in b.ev] != [tuple(e) for e in ref.events]:
            for i, (x, y) in enumerate(zip(b.ev, ref.events)):
                if tuple(x) != tuple(y):
                    raise Violation(case, "builder event #%d is %r, the derivation has %r\n%s" % (i, x, y, text))
            raise Violation(case, "builder saw %d events, the derivation has %d\n%s" % (len(b.ev), len(ref.events), text))
    elif real[1][0][0] != ref.errors[0][0]:
        raise Violation(case, "first error at line %r, the sentence breaks at line %r\n%s" % (real[1][0][0], ref.errors[0][0], text))


def unit_text(a):
    stats = Stats()
    strat = noisy.st_noisy().map(lambda x: {"sub": "text", "text": x[0], "default": x[1], "label": x[2]})
    hyp(stats, strat, check_text, a["n"], shard_seed(a["seed"], a["shard"], 22))
    return stats


def run_text(ctx):
    q = ctx.quick
    ctx.units("real-text", unit_text, [{"n": 750 if q else 6000, "seed": ctx.seed, "shard": i} for i in range(8 if q else 16)], procs=16)
