"""C01 - the parse/compile pipeline is total and fails only with typed, located errors; matching work is linear."""
from __future__ import annotations

import os
import signal
import shutil
import subprocess
import sys
import tempfile

from hypothesis import strategies as st

from vlib import gh, model, noisy
from vlib.common import REPO, VERIF, HarnessError, Stats, Violation, exc_bucket, exc_origin, hyp, shard_seed, sweep
from vlib.instr import BudgetExceeded, CountingMatcher
from vlib.refs import split_lines

K_LINEAR = 100  # match_* calls allowed per line (structural maximum is about 16 tests per token + 2 look-ahead passes x 5)
ALLOWED_ENVELOPES = {"source", "gherkinDocument", "pickle", "parseError"}


class Hang(Exception):
    pass


def _alarm(signum, frame):
    raise Hang()


def pipeline(text, dflt, cov=None):
    """runs everything C01 talks about on one text; returns (outcome label, match calls) or raises Violation-worthy exceptions"""
    nlines = len(split_lines(text))
    budget = K_LINEAR * (nlines + 1)
    calls = 0
    outcome = None
    for stop in (False, True):
        p = gh.Parser(gh.AstBuilder(gh.IdGenerator()))
        p.stop_at_first_error = stop
        m = CountingMatcher(dflt, budget=budget)
        if cov is not None and not stop:
            orig = p.match_token

            def spy(state, token, context, orig=orig):
                new = orig(state, token, context)
                cov.add((state, "EOF" if token.eof() else getattr(token, "matched_type", None) if not context.errors or new != state else "<unexpected>"))
                return new
            p.match_token = spy
        try:
            doc = p.parse(text, m)
        except gh.CompositeParserException as e:
            if stop:
                raise AssertionError("stop-at-first-error mode raised a composite error")
            if not (1 <= len(e.errors) <= 11):
                raise AssertionError("parser error carries %d errors" % len(e.errors))
            for x in e.errors:
                if not isinstance(x, gh.ParserException) or not isinstance(getattr(x, "location", None), dict) or not isinstance(x.location.get("line"), int) or x.location["line"] < 1:
                    raise AssertionError("error without a source location: %r" % (x,))
            outcome = "rejected"
        except gh.ParserException as e:
            if not stop:
                raise AssertionError("collecting mode raised a single %s instead of the composite parser error" % type(e).__name__)
            if not isinstance(getattr(e, "location", None), dict) or not isinstance(e.location.get("line"), int):
                raise AssertionError("error without a source location: %r" % (e,))
            outcome = "rejected"
        else:
            if not isinstance(doc, dict):
                raise AssertionError("parse returned %r" % type(doc).__name__)
            d = dict(doc, uri="u")
            pk = gh.Compiler().compile(d)
            if not isinstance(pk, list) or any(not isinstance(x, dict) for x in pk):
                raise AssertionError("compile returned %r" % (pk,))
            outcome = "accepted"
        calls = max(calls, m.calls)
    if dflt == "en":
        for opts, media in (((True, True, True), "text/x.cucumber.gherkin+plain"), ((False, False, True), "text/x.cucumber.gherkin+plain"),
                            ((False, True, True), "text/x.cucumber.gherkin+markdown"), ((True, True, False), "")):
            ev = gh.GherkinEvents(gh.GherkinEvents.Options(*opts))
            for env in ev.enum({"source": {"uri": "u", "data": text, "mediaType": media}}):
                if not isinstance(env, dict) or len(env) != 1 or next(iter(env)) not in ALLOWED_ENVELOPES:
                    raise AssertionError("stream yielded %r" % (env,))
    return outcome, calls, nlines


def check_text(case, stats, cov=None, buckets=None):
    text, dflt = case["text"], case.get("default", "en")
    if gh.names_existing_path(text):
        stats.label("excluded_known_F1")
        return
    use_alarm = False  # the runner's per-case watchdog (vlib.common.guarded) covers every check
    if use_alarm:
        try:
            old = signal.signal(signal.SIGALRM, _alarm)
            signal.setitimer(signal.ITIMER_REAL, 30)
        except ValueError:
            use_alarm = False
    try:
        outcome, calls, nlines = pipeline(text, dflt, cov)
    except Hang:
        raise Violation(case, "pipeline did not finish within 30 s on a %d-character text" % len(text))
    except BudgetExceeded as b:
        raise Violation(case, "more than %d line-matching operations per line (%s calls, %d lines): matching work is not linear / does not terminate" % (
            K_LINEAR, b, len(split_lines(text))))
    except (Violation, HarnessError):
        raise
    except AssertionError as e:
        raise Violation(case, str(e))
    except Exception as e:  # noqa
        if exc_origin(e) != "library":
            raise
        b = exc_bucket(e)
        msg = "%s escapes the pipeline: %s [%s]" % (type(e).__name__, str(e)[:160], "/".join(b[1:]))
        if buckets is None:
            raise Violation(case, msg)
        if b not in buckets or len(text) < len(buckets[b][0]["text"]):
            buckets[b] = (case, msg)
        stats.label("escaped:" + "/".join(b))
        return
    finally:
        if use_alarm:
            signal.setitimer(signal.ITIMER_REAL, 0)
            signal.signal(signal.SIGALRM, old)
    stats.case(text, nlines >= 2 and calls >= 6, sample={"text": text[:300], "outcome": outcome, "match_calls": calls},
               labels=[outcome, case.get("label", "-")])
    stats.notes["max_calls_per_line"] = max(stats.notes.get("max_calls_per_line", 0), round(calls / (nlines + 1), 1))


def ddmin_lines(case, fails):
    """tiny line-level minimiser for bucketed failures (Hypothesis' shrinker is bypassed when several root causes are collected)"""
    lines = case["text"].split("\n")
    changed = True
    budget = 300
    while changed and budget > 0:
        changed = False
        for i in range(len(lines)):
            cand = lines[:i] + lines[i + 1:]
            budget -= 1
            if cand and fails(dict(case, text="\n".join(cand))):
                lines = cand
                changed = True
                break
    return dict(case, text="\n".join(lines))


def unit_texts(a):
    stats = Stats()
    cov = set()
    buckets = {}
    oracle = lambda c, s: check_text(c, s, cov, buckets)
    if a["kind"] == "noisy":
        strat = noisy.st_noisy().map(lambda x: {"sub": "text", "text": x[0], "default": x[1], "label": x[2]})
    elif a["kind"] == "model":
        strat = model.rendered().map(lambda x: {"sub": "text", "text": x[1].text, "default": x[0]["default"], "label": "valid-model"})
    elif a["kind"] == "unicode":
        strat = st.text(st.characters(blacklist_categories=["Cs"]), max_size=60).map(lambda t: {"sub": "text", "text": t, "label": "st.text"})
    else:
        strat = st.lists(st.sampled_from(noisy.SOUP_ALPHABET + ["Feature:", "Scenario:", "Given ", "Examples:", '"""', "\n ", "| a |", "@t", "# language: fr\n"]), max_size=40).map(
            "".join).map(lambda t: {"sub": "text", "text": t, "label": "alphabet-soup"})
    hyp(stats, strat, oracle, a["n"], shard_seed(a["seed"], a["shard"], {"noisy": 1, "model": 2, "unicode": 3, "soup": 4}[a["kind"]]))
    for b, (case, msg) in buckets.items():
        def fails(c):
            try:
                pipeline(c["text"], c.get("default", "en"))
            except Exception as e:  # noqa
                return exc_origin(e) == "library" and exc_bucket(e) == b
            return False
        stats.fail(ddmin_lines(case, fails), msg)
    stats.notes["state_kind_pairs_exercised"] = set("%s/%s" % x for x in cov)
    return stats


def one_line_sources():
    out = []
    for n in [0, 1, 2, 10, 100, 200, 254, 255, 256, 257, 300, 1000, 4094, 4095, 4096, 4097, 5000, 70000]:
        for pat in ("x" * n, "Feature: " + "x" * n, "a/" * (n // 2), "\u00e9" * n, "dir/" + "x" * n + ".feature", "/" + "y" * n, "Given " + "z" * n + "\\"):
            out.append(pat)
    out += ["Feature: Import a .feature", "features/login.feature", "features/login.feature.md", "x.FEATURE", " .feature", "Scenario: see docs/readme.md", "~", "~/x.feature", "C:\\x\\y.feature",
            "file:///tmp/x.feature", "..", "...", "./", "//", "a\\b", "*", "?", "[", "[a-z].feature", "$HOME", "%TEMP%", "con", "nul", "-", "--help", "\\\\server\\share",
            "//[TODO]", "// Login feature [draft]", "http://[::1", "Feature://[::1", "file://[x", "s3://bucket/x.feature", "//\u2100/x", "//a\uff0fb", "x://]", "mailto:a@[b", "data:,Feature", "zip://a!b",
            "%", "%zz", "%00", "a\x00b", "{0}", "{", "%s", "%(x)s", "\\N{x}", "\\u12", "&amp;", "<a>", "${", "`x`", "$(x)"]
    return out


def unit_corpus(a):
    stats = Stats()
    # sources without any line feed (a guess "is this a path?" must never turn into an escaping OS error)
    sweep(stats, [{"sub": "text", "text": t, "label": "one-line-source"} for t in one_line_sources()], check_text, stop_after=3)
    sweep(stats, [{"sub": "text", "text": t, "label": "corpus"} for n, t in noisy.corpus_texts()], check_text)
    return stats


# ------------------------------------------------------------------ totality over histories: one Parser (default matcher) / one stream for many texts
def check_history(case, stats):
    texts, stops = case["texts"], case["stops"]
    if any(gh.names_existing_path(t) for t in texts):
        stats.label("excluded_known_F1")
        return
    parser = gh.Parser()
    compiler = gh.Compiler()
    ev = gh.GherkinEvents(gh.GherkinEvents.Options(True, True, True))
    outcomes = []
    for i, (t, stop) in enumerate(zip(texts, stops)):
        parser.stop_at_first_error = stop
        try:
            try:
                doc = parser.parse(t)
                compiler.compile(dict(doc, uri="u"))
                outcomes.append("acc")
            except gh.ParserError:
                outcomes.append("rej")
            for env in ev.enum({"source": {"uri": "u", "data": t, "mediaType": "text/x.cucumber.gherkin+plain"}}):
                if not isinstance(env, dict) or len(env) != 1 or next(iter(env)) not in ALLOWED_ENVELOPES:
                    raise AssertionError("stream yielded %r" % (env,))
            if i % 2 == len(texts) % 2:
                # the text wrapped in a scanner object (Parser.parse takes either)
                try:
                    parser.parse(gh.TokenScanner(t))
                except gh.ParserError:
                    pass
        except AssertionError as e:
            raise Violation(case, str(e))
        except Exception as e:  # noqa
            if exc_origin(e) != "library":
                raise
            raise Violation(case, "%s escapes the pipeline on text #%d of a history through one Parser / one stream (outcomes so far %r): %s [%s]" % (
                type(e).__name__, i, outcomes, str(e)[:160], "/".join(exc_bucket(e)[1:])))
    stats.case(case, "rej" in outcomes[:-1], sample={"outcomes": outcomes, "stops": stops, "first": texts[0][:120]}, labels=["len=%d" % len(texts)])


def g_history(s):
    from .c15 import POOL
    names = sorted(POOL)
    texts = [POOL[s.choice(names)] if s.int(2) else noisy.g_noisy(s)[0] for _ in range(s.rng(2, 4))]
    return {"sub": "history", "texts": texts, "stops": [s.int(3) == 0 for _ in texts]}


def unit_histories(a):
    import itertools
    from .c15 import POOL
    stats = Stats()
    names = sorted(POOL)
    if a["kind"] == "pool":
        def gen():
            n = 0
            for x, y in itertools.product(names, repeat=2):
                for stops in ([False, False], [True, False], [True, True]):
                    n += 1
                    if n % a["nshards"] == a["shard"]:
                        yield {"sub": "history", "texts": [POOL[x], POOL[y]], "stops": stops}
        sweep(stats, gen(), check_history)
    else:
        strat = st.binary(min_size=3500, max_size=3500).map(lambda b: g_history(model.Src(b)))
        hyp(stats, strat, check_history, a["n"], shard_seed(a["seed"], a["shard"], 7))
    return stats


# ------------------------------------------------------------------ linear work on length-scaled adversarial families
def family(name, n):
    F = "Feature: f\n Scenario: s\n  Given x\n"
    S = ""
    if name == "tag-run-before-scenario":
        return F + " @t\n" * n + " Scenario: t\n"
    if name == "tag-run-before-examples":
        return "Feature: f\n Scenario Outline: s\n  Given x\n" + " @t\n" * n + " Examples:\n  | a |\n"
    if name == "tag-run-before-rule":
        return F + " @t\n" * n + " Rule: r\n"
    if name == "tags-and-comments":
        return F + " @t\n # c\n\n" * n + " Scenario: t\n"
    if name == "tag-garbage-alternating":
        return F + " @t\n garbage\n" * n
    if name == "tag-run-no-follower":
        return F + " @t\n" * n
    if name == "scenarios-each-with-tag-run":
        return "Feature: f\n" + (" @a\n @b\n # c\n Scenario: s\n  Given x\n") * n
    if name == "long-table":
        return F + "   | a | b |\n" * n
    if name == "long-docstring":
        return F + '   """\n' + "   Scenario: no\n" * n + '   """\n'
    if name == "long-description":
        return "Feature: f\n" + " text\n # c\n" * n
    if name == "examples-with-tags":
        return "Feature: f\n Scenario Outline: s\n  Given <a>\n" + (" @e\n\n Examples:\n  | a |\n  | 1 |\n") * n
    if name == "whitespace-tag-errors":
        return F + " @a b\n" * n
    # single long lines (n characters): nothing may blow up in the line-level splitters either
    if name == "row-long-open-last-cell":
        return F + "   | a | " + "x" * n + "\n"
    if name == "row-many-escapes":
        return F + "   | " + "\\\\" * n + " | " + "\\n" * n + " |\n"
    if name == "row-many-cells":
        return F + "   |" + " c |" * n + "\n"
    if name == "tag-line-many-tags":
        return F + " " + "@t " * n + "\n Scenario: t\n"
    # one long line whose repeated element is followed by something a whole-line pattern would fail on only at the very end
    if name == "glued-tags-then-bare-at":
        return F + " " + "@a" * n + " @\n Scenario: t\n"
    if name == "glued-tags-then-word":
        return F + " " + "@a" * n + " b\n Scenario: t\n"
    if name == "spaced-tags-then-word":
        return F + " " + "@a  " * n + "b @c\n Scenario: t\n"
    if name == "title-many-colons":
        return F + " Scenario" + ":" * n + " x" + " :" * n + "\n  Given x\n"
    if name == "step-keyword-repeated":
        return F + S + "  " + "Given " * n + "\n  " + "And" * n + "\n  " + "* " * n + "\n"
    if name == "language-header-near-miss":
        return "#" + " language" * n + "\n# language: " + "a-" * n + "!\n#language:" + " " * n + "\n" + F
    if name == "quotes-and-backticks":
        return F + S + "  Given x\n   " + '"' * (2 * n + 1) + "\n   " + "`" * n + '"' * n + "\n   " + '\\"' * n + "\n   " + '"' * (2 * n + 1) + "\n"
    if name == "odd-backslashes-in-row":
        return F + S + "  Given x\n   | " + "\\" * (2 * n + 1) + "\n   |" + "\\|" * n + "\n   | " + "\\" * (2 * n + 1) + "n |\n"
    if name == "blanks-word-blanks":
        return F + " " * n + "x" + " " * n + "\n" + "\t " * n + "@t" + " \t" * n + "\n" + S + " " * n + "Given" + " " * n + "y" + " " * n + "\n   |" + " " * n + "a" + " " * n + "|" + " " * n + "\n"
    if name == "placeholder-brackets":
        return F + " Scenario Outline: " + "<" * n + "a" + ">" * n + "\n  Given " + "<a" * n + ">\n  Examples:\n   | a | " + "<a>" * n + " |\n   | <a> | " + "<" * n + " |\n"
    if name == "tag-line-long-comment":
        return F + " @t #" + " x" * n + "\n Scenario: t\n"
    if name == "long-step-text":
        return F + "  And " + "word " * n + "\n"
    if name == "long-blank-line":
        return F + " " * n + "\n" + "\t" * n + "x\n"
    if name == "language-header-long":
        return "#" + " " * n + "language" + " " * n + ":" + " " * n + "en" + " " * n + "\nFeature: f\n"
    if name == "docstring-many-escapes":
        return F + '   """\n   ' + '\\"\\"\\"' * n + "\n   \"\"\"\n"
    raise KeyError(name)


FAMILIES = ["tag-run-before-scenario", "tag-run-before-examples", "tag-run-before-rule", "tags-and-comments", "tag-garbage-alternating", "tag-run-no-follower",
            "scenarios-each-with-tag-run", "long-table", "long-docstring", "long-description", "examples-with-tags", "whitespace-tag-errors",
            "row-long-open-last-cell", "row-many-escapes", "row-many-cells", "tag-line-many-tags", "tag-line-long-comment", "long-step-text", "long-blank-line",
            "language-header-long", "docstring-many-escapes", "glued-tags-then-bare-at", "glued-tags-then-word", "spaced-tags-then-word", "title-many-colons", "step-keyword-repeated",
            "language-header-near-miss", "quotes-and-backticks", "odd-backslashes-in-row", "blanks-word-blanks", "placeholder-brackets"]


def check_scaling(case, stats):
    name, base = case["family"], case["base"]
    per_line = []
    for mult in (1, 2, 4, 8):
        text = family(name, base * mult)
        nlines = len(split_lines(text))
        m = CountingMatcher("en", budget=K_LINEAR * (nlines + 1))
        p = gh.Parser(gh.AstBuilder(gh.IdGenerator()))
        try:
            gh.Compiler().compile(dict(p.parse(text, m), uri="u"))
        except gh.ParserError:
            pass
        except BudgetExceeded:
            raise Violation(case, "family %s with %d lines needs more than %d matching operations per line" % (name, nlines, K_LINEAR))
        per_line.append(m.calls / (nlines + 1))
        stats.case((name, base * mult), True, sample={"family": name, "lines": nlines, "match_calls": m.calls, "per_line": round(per_line[-1], 2)})
    if per_line[-1] > per_line[0] * 1.10 + 0.5:
        raise Violation(case, "family %s: matching operations per line grow with the input length: %r (n, 2n, 4n, 8n)" % (name, [round(x, 2) for x in per_line]))


def unit_scaling(a):
    stats = Stats()
    sweep(stats, [{"sub": "scaling", "family": f, "base": b} for f in FAMILIES for b in a["bases"]], check_scaling)
    return stats


# ------------------------------------------------------------------ coverage-guided fuzzing (atheris)
def unit_atheris(a):
    stats = Stats()
    try:
        import atheris  # noqa
    except Exception:
        stats.notes["atheris"] = "not installed - coverage-guided sub-campaign skipped"
        return stats
    out = tempfile.mkdtemp(prefix="c01-fuzz-")
    corpus = os.path.join(out, "corpus")
    os.makedirs(corpus)
    if a["seed_corpus"]:
        for i, (n, t) in enumerate(noisy.corpus_texts()):
            if len(t) < 600:
                open(os.path.join(corpus, "seed%d" % i), "w", encoding="utf8", newline="").write(t)
    cmd = [sys.executable, "-X", "utf8", os.path.join(VERIF, "tools", "fuzz_c01.py"), corpus, "-runs=%d" % a["runs"], "-seed=%d" % (a["seed"] + a["shard"] + 1),
           "-max_len=400", "-artifact_prefix=" + out + "/", "-print_final_stats=1", "-verbosity=0", "-rss_limit_mb=6000", "-timeout=90"]
    env = dict(os.environ, VERIF_FUZZ_MODE=a["mode"])
    r = subprocess.run(cmd, capture_output=True, text=True, cwd=os.getcwd(), env=env, timeout=3600)
    execs = 0
    for line in (r.stderr + r.stdout).splitlines():
        if "stat::number_of_executed_units" in line:
            execs = int(line.split(":")[-1].strip())
    stats.notes["atheris_execs"] = execs
    stats.evaluations += execs
    crashes = [f for f in os.listdir(out) if f.startswith(("crash-", "timeout-", "oom-"))]
    for c in crashes[:3]:
        data = open(os.path.join(out, c), "rb").read()
        text = data.decode("utf8", "replace")
        if a["mode"] == "structured":
            try:
                text = noisy.g_noisy(model.Src(data))[0]
            except Exception:
                pass
        case = {"sub": "text", "text": text, "label": "atheris-" + a["mode"]}
        try:
            check_text(case, Stats())
            stats.notes["atheris_unreproduced_artifact"] = stats.notes.get("atheris_unreproduced_artifact", 0) + 1
        except Violation as v:
            stats.fail(v.case, v.message)
    if r.returncode != 0 and not crashes:
        stats.harness_errors.append("atheris run failed (%d): %s" % (r.returncode, (r.stderr or r.stdout)[-600:]))
    import shutil
    shutil.rmtree(out, ignore_errors=True)
    return stats


# ------------------------------------------------------------------ other interpreter modes
MODE_SCRIPT = r"""
import os, sys
sys.path.insert(0, sys.argv[1]); sys.path.insert(0, sys.argv[2])
from vlib import noisy
from checks import c01
from checks.c15 import POOL
if os.environ.get("VERIF_DELETE_CWD"):
    os.rmdir(os.getcwd())   # the process lives on in a directory that no longer exists (cleaned workspace, daemon)
n = 0
EXTRA = ["Feature: f\n Scenario Outline: o <n>\n  Given <n>\n  Examples:\n   | n | n |\n   | 1 | 2 |\n", "@a @a\nFeature: f\n @a\n Scenario: s\n  Given x\n  Given x\n",
         "Feature: f\n Scenario: same\n Scenario: same\n", "Feature: f\n Background:\n Scenario: s\n", "Feature: f\n Scenario Outline: o\n  Given <missing>\n  Examples:\n   | a |\n   | 1 |\n",
         "Feature: f\n Scenario Outline: o\n  Given x\n  Examples:\n   | unused |\n   | 1 |\n", "Feature: f\n Rule: empty\n Rule: empty\n", "Feature:\n Scenario:\n  Given \n"]
for name, text in list(noisy.corpus_texts()) + sorted(POOL.items()) + [("extra", t) for t in EXTRA]:
    try:
        c01.pipeline(text, "en")
    except Exception:
        import traceback
        traceback.print_exc()
        sys.exit(3)
    n += 1
print("ok", n)
"""


def check_mode(case, stats):
    """the totality oracle over corpus + pool in an interpreter with assertions stripped / with a non-UTF-8 locale"""
    stats.case(("mode", case["name"]), True, sample=case)
    env = dict(os.environ, PYTHONDONTWRITEBYTECODE="1", **case.get("env", {}))
    plain = subprocess.run([sys.executable, "-X", "utf8", "-c", MODE_SCRIPT, os.path.join(REPO, "python"), VERIF], capture_output=True, text=True, timeout=600, cwd=os.getcwd(),
                           env=dict(os.environ, PYTHONDONTWRITEBYTECODE="1"))
    if plain.returncode == 3:
        raise Violation(case, "the pipeline lets a foreign exception escape on a document of the corpus: " + plain.stderr[-600:])
    if plain.returncode != 0:
        raise HarnessError("mode script fails in a plain interpreter: " + plain.stderr[-600:])
    cwd = os.getcwd()
    if case.get("delete_cwd"):
        cwd = tempfile.mkdtemp(prefix="c01-gone-")
        env["VERIF_DELETE_CWD"] = "1"
    r = subprocess.run([sys.executable] + case.get("flags", []) + ["-c", MODE_SCRIPT, os.path.join(REPO, "python"), VERIF], capture_output=True, text=True, timeout=600, cwd=cwd, env=env)
    if case.get("delete_cwd") and os.path.isdir(cwd):
        shutil.rmtree(cwd, True)
    if r.returncode != 0 or r.stdout.strip() != plain.stdout.strip():
        raise Violation(case, "the pipeline is total in a plain interpreter but not in one started with %r %r: %s" % (case.get("flags"), case.get("env"), (r.stderr or r.stdout)[-600:]))


def unit_modes(a):
    stats = Stats()
    sweep(stats, [{"sub": "mode", "name": "optimised", "flags": ["-O"]}, {"sub": "mode", "name": "optimised-2", "flags": ["-OO"]},

                  {"sub": "mode", "name": "c-locale", "env": {"LC_ALL": "C", "LANG": "C", "PYTHONUTF8": "0", "PYTHONCOERCECLOCALE": "0", "PYTHONIOENCODING": "utf-8"}}], check_mode, stop_after=5)
    return stats


# ------------------------------------------------------------------ known finding F1
def demonstrate_f1():
    """TokenScanner(str) opens the source text as a file when it names an existing path"""
    try:
        gh.Parser().parse(".")
    except gh.ParserError:
        return False
    except (IsADirectoryError, PermissionError, OSError):
        return True
    return False


def replay(case, stats):
    return {"text": check_text, "scaling": check_scaling, "history": check_history, "mode": check_mode}[case["sub"]](case, stats)


def run(ctx):
    from vlib.common import load_known_findings
    q = ctx.quick
    for f in load_known_findings():
        if f.get("property") == "C01" and f.get("status") == "known" and f.get("id") == "F1" and demonstrate_f1():
            ctx.known(f["line"])
    ctx.units("corpus", unit_corpus, [{}])
    ctx.units("interpreter-modes", unit_modes, [{}])
    from . import magnitude
    magnitude.run_big(ctx, "c01", "check_text", "text")
    ctx.units("scaling-families", unit_scaling, [{"bases": [20, 125] if q else [20, 125, 500]}])
    units = []
    for kind, n in (("noisy", 1200 if q else 12000), ("model", 500 if q else 4000), ("unicode", 500 if q else 6000), ("soup", 500 if q else 6000)):
        for i in range(8 if q else 16):
            units.append({"kind": kind, "n": n, "seed": ctx.seed, "shard": i})
    ctx.units("generated-texts", unit_texts, units, procs=16)
    hu = [{"kind": "pool", "shard": i, "nshards": 8} for i in range(8)] + [{"kind": "sampled", "n": 150 if q else 1500, "seed": ctx.seed, "shard": i} for i in range(8 if q else 16)]
    ctx.units("histories-one-parser-one-stream", unit_histories, hu, procs=16)
    fz = []
    for i in range(8 if q else 16):
        fz.append({"runs": 6000 if q else 150000, "seed": ctx.seed * 100, "shard": i, "mode": "structured" if i % 2 else "text", "seed_corpus": i % 4 >= 2})
    ctx.units("atheris-coverage-guided", unit_atheris, fz, procs=16)
    st_ = ctx.subs.get("generated-texts")
    if st_ is not None:
        pairs = st_.notes.get("state_kind_pairs_exercised", set())
        ctx.extra["parser_state_kind_pairs_exercised"] = len(pairs)
        ctx.extra["parser_states_exercised"] = len({p.split("/")[0] for p in pairs})
        st_.notes["state_kind_pairs_exercised"] = len(pairs)
    ctx.rule = ("texts: mutated/valid model documents, per-dialect line soup, adversarial-alphabet soup, st.text over Unicode, the acceptance corpus, and atheris coverage-guided "
                "campaigns (raw UTF-8 and structured decode; empty and seeded corpus); each text runs through Parser.parse in both error modes with a counting matcher, "
                "Compiler.compile on every returned document and GherkinEvents.enum; oracle: outcome is a document or the library's parser error with 1..11 located errors, "
                "nothing else escapes (escapes are bucketed by (type, innermost gherkin frame) so that every root cause is reported), match_* calls <= 100 x (lines+1), "
                "and on 12 length-scaled adversarial families calls per line do not grow from n to 8n. Non-trivial = >=2 lines and >=6 matching operations; distinct = distinct text. "
                "Texts that name an existing path are excluded by construction and counted (known finding F1).")
    ctx.assumptions += ["absence of a crashing input is argued by search volume and coverage, not proved", "work bound measured up to ~4000 lines (quick: 1000)"]
