"""C08 - pickle tags are the feature, rule, scenario and examples tags, in that order."""
from __future__ import annotations

from hypothesis import strategies as st

from vlib.astgen import ast_features, st_ast
from vlib.common import Stats, Violation, hyp, shard_seed
from vlib.refcompile import all_scenarios, proj_c08, ref_compile

from . import pickles_common as pc

WHAT = "pickle tags"


def isolation_invariant(case, doc, real):
    f = doc.get("feature")
    if not f:
        return
    allowed = {}
    for sc, rule in all_scenarios(doc):
        base = [t["id"] for t in f["tags"]] + ([t["id"] for t in rule["tags"]] if rule else []) + [t["id"] for t in sc["tags"]]
        allowed[(sc["id"],)] = base
        for ex in sc["examples"]:
            for r in ex.get("tableBody", []):
                allowed[(sc["id"], r["id"])] = base + [t["id"] for t in ex["tags"]]
    names = {}

    def walk(x):
        if isinstance(x, dict):
            if set(x) == {"id", "location", "name"}:
                names[x["id"]] = x["name"]
            for v in x.values():
                walk(v)
        elif isinstance(x, list):
            for v in x:
                walk(v)
    walk(doc)
    for p in real:
        got = [t["astNodeId"] for t in p["tags"]]
        want = allowed[tuple(p["astNodeIds"])]
        if got != want:
            raise Violation(case, "pickle %r inherits tags %r, ancestors' tags in order are %r" % (p["astNodeIds"], got, want))
        for t in p["tags"]:
            if set(t) != {"astNodeId", "name"} or names.get(t["astNodeId"]) != t["name"]:
                raise Violation(case, "pickle tag %r does not carry the name of AST tag %r" % (t, names.get(t["astNodeId"])))


def check_ast(case, stats):
    doc, nid = case["doc"], case["next_id"]
    ref = ref_compile(doc, nid)
    lab = ast_features(doc)
    nontrivial = len(lab["tag_levels"]) >= 3 and (lab["scenarios"] >= 2 or lab["rules"] >= 2 or lab["multi_examples"])
    stats.case(case, nontrivial, sample=case, labels=["levels=%d" % len(lab["tag_levels"])] + (["multi-examples"] if lab["multi_examples"] else []))
    real = pc.real_compile(doc, nid)
    pc.compare(case, real, ref, proj_c08, WHAT)
    isolation_invariant(case, doc, real)


BIAS = dict(max_tags=3, tag=st.sampled_from(["@a", "@b", "@a", "@", "@long-tag", "@é", "@<a>", "@t-<b>", "@<c>", "@A"]), p_outline=0.6, max_examples=3,
            max_steps=1, p_arg=0.1)


def unit_ast(a):
    stats = Stats()
    hyp(stats, st_ast(**BIAS).map(lambda c: dict(c, sub="ast")), check_ast, a["n"], shard_seed(a["seed"], a["shard"], 8))
    return stats


def unit_reuse(a):
    return pc.unit_reuse(a, st_ast(**BIAS), proj_c08, WHAT, 68)


def unit_golden(a):
    return pc.unit_golden(proj_c08, WHAT)


def unit_modes(a):
    return pc.unit_modes(proj_c08, WHAT)


def replay(case, stats):
    if case["sub"] == "modes":
        return pc.check_modes(case, stats, proj_c08, WHAT)
    if case["sub"] == "golden":
        return pc.replay_golden(case, proj_c08, WHAT)
    if case["sub"] in ("text", "rawtext"):
        from . import textdocs
        return textdocs.check_text(case, stats, "C08")
    if case["sub"] == "shared-compiler":
        from . import c07
        return c07.check_shared_compiler(case, stats)
    if case["sub"] == "reuse":
        return pc.check_reuse(case, stats, proj_c08, WHAT)
    return check_ast(case, stats)


def run(ctx):
    pc.calibrate()
    q = ctx.quick
    ctx.units("golden", unit_golden, [{}])
    ctx.units("interpreter-modes", unit_modes, [{}])
    ctx.units("ast-hypothesis", unit_ast, [{"n": 1500 if q else 20000, "seed": ctx.seed, "shard": i} for i in range(8 if q else 16)], procs=16)
    ctx.units("compiler-reuse", unit_reuse, [{"n": 450 if q else 4000, "seed": ctx.seed, "shard": i} for i in range(8 if q else 16)], procs=16)
    from . import textdocs
    textdocs.run_text(ctx, "C08")
    ctx.rule = ("ASTs with 0..3 tags (duplicates, bare '@') on feature, rules, scenarios and examples blocks, several siblings at each "
                "level, plus parser-produced documents; tag lists compared with the reference and with an independent "
                "ancestor-chain invariant; non-trivial = tags on >=3 of the 4 levels and >=2 siblings at one level; distinct = distinct AST / text.")
    ctx.assumptions += ["reference compiler vlib/refcompile.py (calibrated on the golden pickles on this run)"]
