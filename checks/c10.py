"""C10 - every pickle step has a definite type derived from its keyword."""
from __future__ import annotations

import itertools

from vlib import gh
from vlib.astgen import KEYWORD_TYPES, KW_FOR_TYPE
from vlib.common import Stats, Violation, sweep
from vlib.refs import DIALECTS, STEP_CATS, step_keyword_type, step_keywords

from . import pickles_common as pc

LOC = {"line": 1, "column": 1}
VOCAB = {"Unknown", "Context", "Action", "Outcome"}
CODE = "CAOJU"  # Context Action Outcome conJunction Unknown
TYPE_OF = dict(zip(CODE, ["Context", "Action", "Outcome", "Conjunction", "Unknown"]))


def fold(types):
    out, last = [], "Unknown"
    for t in types:
        if t != "Conjunction":
            last = t
        out.append(last)
    return out


def build(fbg, rbg, own, rows):
    n = [0]

    def gid():
        n[0] += 1
        return str(n[0] - 1)

    def steps(code):
        return [{"id": gid(), "location": LOC, "keyword": KW_FOR_TYPE[TYPE_OF[c]], "keywordType": TYPE_OF[c], "text": "t"} for c in code]

    def bg(code):
        st = steps(code)
        return {"background": {"id": gid(), "location": LOC, "keyword": "Background", "name": "", "description": "", "steps": st}}

    def scen():
        st = steps(own)
        exs = []
        if rows:
            hdr = {"id": gid(), "location": LOC, "cells": [{"location": LOC, "value": "a"}]}
            body = [{"id": gid(), "location": LOC, "cells": [{"location": LOC, "value": "v"}]} for _ in range(rows)]
            exs = [{"id": gid(), "tags": [], "location": LOC, "keyword": "Examples", "name": "", "description": "", "tableHeader": hdr, "tableBody": body}]
        return {"scenario": {"id": gid(), "tags": [], "location": LOC, "keyword": "Scenario", "name": "s", "description": "", "steps": st, "examples": exs}}

    children = []
    if fbg is not None:
        children.append(bg(fbg))
    if rbg is None:
        children.append(scen())
    else:
        rch = [bg(rbg), scen()]
        children.append({"rule": {"id": gid(), "tags": [], "location": LOC, "keyword": "Rule", "name": "r", "description": "", "children": rch}})
    doc = {"feature": {"tags": [], "location": LOC, "language": "en", "keyword": "Feature", "name": "f", "description": "", "children": children},
           "comments": [], "uri": "u"}
    return doc, n[0]


def nontrivial_seq(seq_types, nbg):
    for i, t in enumerate(seq_types):
        if t == "Conjunction" and (i == 0 or seq_types[i - 1] == "Unknown" or (i == nbg and nbg > 0)):
            return True
    return False


def check_seq(case, stats):
    fbg, rbg, own = case["fbg"], case["rbg"], case["own"]
    seq = [TYPE_OF[c] for c in (fbg or "") + (rbg or "") + own]
    want = fold(seq) if own else []
    stats.case(case, nontrivial_seq(seq, len(seq) - len(own)), sample=case, labels=["len=%d" % len(seq)])
    results = {}
    for rows in (0, 1, 2):
        doc, nid = build(fbg, rbg, own, rows)
        pk = pc.real_compile(doc, nid)
        if len(pk) != max(rows, 1):
            raise Violation(case, "expected %d pickles, got %d" % (max(rows, 1), len(pk)))
        for p in pk:
            got = [s.get("type", "<missing>") for s in p["steps"]]
            for g in got:
                if not isinstance(g, str) or g not in VOCAB:
                    raise Violation(case, "pickle step type %r is outside the vocabulary (%s, keyword types %r)" % (
                        g, "outline" if rows else "plain scenario", seq))
            if got != want:
                raise Violation(case, "%s: step types %r for keyword types %r, expected %r" % ("outline" if rows else "plain scenario", got, seq, want))
        results[rows] = [[s["type"] for s in p["steps"]] for p in pk]
    if results[1][0] != results[0][0] or any(r != results[0][0] for r in results[2]):
        raise Violation(case, "plain scenario and outline disagree: %r" % (results,))


def unit_seq(a):
    stats = Stats()

    def gen():
        n = 0
        for total in range(0, a["maxlen"] + 1):
            for tup in itertools.product(CODE, repeat=total):
                s = "".join(tup)
                for i in range(total + 1):
                    for j in range(i, total + 1):
                        n += 1
                        if n % a["nshards"] != a["shard"]:
                            continue
                        own = s[j:]
                        if not own and total > 2:
                            continue  # step-less scenarios carry no steps at all; a few short ones suffice
                        # feature background s[:i], rule background s[i:j] (None = scenario directly under the feature)
                        yield {"sub": "seq", "fbg": s[:i] if i else (None if total % 2 else ""), "rbg": s[i:j] if j > i else (None if (i + total) % 2 else ""), "own": own}
    sweep(stats, gen(), check_seq)
    return stats


# ------------------------------------------------------------------ every dialect through the parser
SHAPES = [("", "g"), ("", "a"), ("", "b"), ("", "*"), ("", "*a"), ("", "ga"), ("", "wb"), ("", "tab"), ("g", "a"), ("w", "b"), ("*", "a"),
          ("ga", "bt"), ("t", "*b"), ("", "gwt"), ("a", "a"), ("b", "g"), ("", "ag"), ("gw", "ab"), ("", "bbt"), ("*", "*")]
CAT = {"g": "given", "w": "when", "t": "then", "a": "and", "b": "but"}


EN_DOC = "Feature: f\n Scenario: s\n  And a\n  Given b\n  And c\n  When d\n  But e\n  Then f\n  * g\n  And h\n"
EN_TYPES = ["Unknown", "Context", "Context", "Action", "Action", "Outcome", "Unknown", "Unknown"]


def unit_long_seq(a):
    """longer step lists than the exhaustive sweep reaches: a cyclic base of keyword types with one, two, three or four And/But steps at
    every position (also adjacent ones), split between backgrounds and scenario at several points"""
    stats = Stats()

    def gen():
        n = 0
        for L in a["lengths"]:
            base = "".join("CAOU"[(i * 7 + i // 3) % 4] for i in range(L))
            pos_sets = [(p,) for p in range(L)] + [(p, p + 1) for p in range(L - 1)] + [(p, p + 1, p + 2) for p in range(0, L - 2, 2)] + \
                       [(p, q) for p in range(0, L, 3) for q in range(p + 2, L, 5)] + [(0, 1, L - 2, L - 1), tuple(range(L))] if L <= 40 else \
                       [(L - 2, L - 1), (0, L - 1), (7, 8), (L // 2, L // 2 + 1), tuple(range(1, L)), (L - 1,), (255, 256), (256,), (511, 512, 513), (512,), (1024,), tuple(range(500, min(L, 530)))]
            for ps in pos_sets:
                seq = "".join("J" if i in ps else c for i, c in enumerate(base))
                for cut1, cut2 in ((0, 0), (0, 2), (1, 3), (3, 3), (L // 2, L // 2), (2, L - 1)):
                    if not (cut1 <= cut2 < L):
                        continue
                    n += 1
                    if n % a["nshards"] != a["shard"]:
                        continue
                    yield {"sub": "seq", "fbg": seq[:cut1] if cut1 else None, "rbg": seq[cut1:cut2] if cut2 > cut1 else None, "own": seq[cut2:]}
    sweep(stats, gen(), check_seq)
    return stats


def check_dialect(case, stats):
    d, (bgs, own), variant = case["dialect"], case["shape"], case["variant"]
    D = DIALECTS[d]
    order = step_keywords(d)

    def kw(c):
        if c == "*":
            return "* "
        ks = [k for k in D[CAT[c]] if k != "* "] or D[CAT[c]]
        return ks[variant % len(ks)]
    lines = ["# language: " + d, D["feature"][0] + ": f"]
    types = []

    def add(c, indent):
        k = kw(c)
        line = k + "text"
        matched = next(x for x, _ in order if line.startswith(x))
        types.append(step_keyword_type(d, matched))
        lines.append(indent + line)
    if bgs:
        lines.append(" " + D["background"][0] + ":")
        for c in bgs:
            add(c, "  ")
    outline = case["outline"]
    lines.append(" " + (D["scenarioOutline"][0] if outline else D["scenario"][0]) + ": s")
    for c in own:
        add(c, "  ")
    if outline:
        lines += ["  " + D["examples"][0] + ":", "   | a |", "   | 1 |"]
    text = "\n".join(lines) + "\n"
    stats.case(text, nontrivial_seq(types, len(bgs)), sample={"dialect": d, "text": text}, labels=["outline" if outline else "plain"])
    r = gh.parse_and_compile(text)
    if r[0] != "ok":
        raise Violation(case, "well-formed %s document rejected: %r\n%s" % (d, r[1], text))
    pk = r[2]
    if len(pk) != 1:
        raise Violation(case, "expected one pickle, got %d\n%s" % (len(pk), text))
    got = [s.get("type", "<missing>") for s in pk[0]["steps"]]
    want = fold(types)
    if got != want:
        raise Violation(case, "dialect %s: pickle step types %r, keyword categories give %r\n%s" % (d, got, want, text))
    # the same matcher, used for this document (dialect switched by its header), then for a plain English one
    m = gh.TokenMatcher("en")
    g = gh.IdGenerator()
    p = gh.Parser(gh.AstBuilder(g))
    r1 = gh.parse(text, parser=p, matcher=m)
    r2 = gh.parse(EN_DOC, parser=p, matcher=m)
    if r1[0] != "ok" or r2[0] != "ok":
        raise Violation(case, "reused matcher rejects a well-formed document: %r / %r" % (r1[1][:1] if r1[0] != "ok" else "ok", r2[1][:1] if r2[0] != "ok" else "ok"))
    pk2 = gh.Compiler(g).compile(dict(r2[1], uri="u"))
    got2 = [s.get("type", "<missing>") for s in pk2[0]["steps"]]
    if got2 != EN_TYPES:
        raise Violation(case, "English document parsed with a matcher that had just handled a %s document: pickle step types %r, expected %r" % (d, got2, EN_TYPES))


def unit_dialects(a):
    stats = Stats()

    def gen():
        for i, d in enumerate(sorted(DIALECTS)):
            if i % a["nshards"] != a["shard"]:
                continue
            has_star = any(k == "* " for k, _ in step_keywords(d))
            for shape in SHAPES:
                if not has_star and "*" in shape[0] + shape[1]:
                    continue  # en-tx and sl do not list '* '
                for outline in (False, True):
                    for variant in a["variants"]:
                        yield {"sub": "dialect", "dialect": d, "shape": list(shape), "variant": variant, "outline": outline}
    sweep(stats, gen(), check_dialect)
    return stats


def unit_reuse(a):
    from vlib.astgen import st_ast
    from vlib.refcompile import proj_c10
    return pc.unit_reuse(a, st_ast(), proj_c10, "C10 projection of the pickles", 70)


def check_cross_dialect(case, stats):
    """a matcher configured for one dialect parses a document whose header selects another dialect that shares a step keyword with another meaning"""
    from .c15 import doc_using
    d1, d2, k = case["default"], case["dialect"], case["kw"]
    text = doc_using(d2, k)
    stats.case((d1, d2, k), True, sample=case)
    g = gh.IdGenerator()
    r = gh.parse(text, d1, builder=gh.AstBuilder(g))
    if r[0] != "ok":
        raise Violation(case, "document in %s (selected by header) rejected by a matcher configured for %s: %r" % (d2, d1, r[1][:2]))
    f = r[1]["feature"]
    steps = [s_ for ch in f["children"] if "scenario" in ch for s_ in ch["scenario"]["steps"]]
    want = []
    for s_ in steps:
        line = s_["keyword"] + s_["text"]
        m = next(x for x, _ in step_keywords(d2) if line.startswith(x))
        want.append(step_keyword_type(d2, m))
    got = [s_["keywordType"] for s_ in steps]
    if got != want:
        raise Violation(case, "matcher default %s, document header %s: keyword types %r, the %s table gives %r\n%s" % (d1, d2, got, d2, want, text))
    pk = gh.Compiler(g).compile(dict(r[1], uri="u"))
    if steps and [s_["type"] for s_ in pk[0]["steps"]] != fold(want):
        raise Violation(case, "matcher default %s, document header %s: pickle step types %r, expected %r" % (d1, d2, [s_["type"] for s_ in pk[0]["steps"]], fold(want)))
    # ONE parser (and its builder) and ONE compiler for a document of the other dialect using the keyword first, then this one - with a
    # matcher of its own for every parse, and with one matcher for both
    for shared_matcher in (False, True):
        g2 = gh.IdGenerator()
        parser, compiler = gh.Parser(gh.AstBuilder(g2)), gh.Compiler(g2)
        m2 = gh.TokenMatcher(d1)
        for dd in (d1, d2):
            r2 = gh.parse(doc_using(dd, k), d1, parser=parser, matcher=m2 if shared_matcher else gh.TokenMatcher(d1))
            if r2[0] != "ok":
                raise Violation(case, "re-used parser rejects the %s document: %r" % (dd, r2[1][:2]))
            pk2 = compiler.compile(dict(r2[1], uri="u"))
        steps2 = [s_ for ch in r2[1]["feature"]["children"] if "scenario" in ch for s_ in ch["scenario"]["steps"]]
        got2 = [s_["keywordType"] for s_ in steps2]
        if got2 != want or (steps2 and [s_["type"] for s_ in pk2[0]["steps"]] != fold(want)):
            raise Violation(case, "one parser and one compiler (%s) for a %s document and then a %s document that both use %r: keyword types %r / pickle step types %r, the %s table gives %r / %r" % (
                "one matcher" if shared_matcher else "a new matcher per parse", d1, d2, k, got2, [s_["type"] for s_ in pk2[0]["steps"]] if steps2 else [], d2, want, fold(want)))


def unit_cross(a):
    from .c15 import shared_keyword_pairs
    stats = Stats()
    pairs = shared_keyword_pairs()
    sweep(stats, [{"sub": "cross", "default": x, "dialect": y, "kw": k} for n, (d1, d2, k) in enumerate(pairs) if n % a["nshards"] == a["shard"] for x, y in ((d1, d2), (d2, d1))], check_cross_dialect)
    return stats


def unit_modes(a):
    from vlib.refcompile import proj_c10
    return pc.unit_modes(proj_c10, "pickle step types")


def replay(case, stats):
    if case["sub"] == "modes":
        from vlib.refcompile import proj_c10
        return pc.check_modes(case, stats, proj_c10, "pickle step types")
    if case["sub"] == "shared-compiler":
        from . import c07
        return c07.check_shared_compiler(case, stats)
    if case["sub"] == "cross":
        return check_cross_dialect(case, stats)
    if case["sub"] == "reuse":
        from vlib.refcompile import proj_c10
        return pc.check_reuse(case, stats, proj_c10, "C10 projection of the pickles")
    if case["sub"] in ("text", "rawtext"):
        from . import textdocs
        return textdocs.check_text(case, stats, "C10")
    return {"seq": check_seq, "dialect": check_dialect}[case["sub"]](case, stats)


def run(ctx):
    q = ctx.quick
    ns = 16
    maxlen = 5 if q else 7
    ctx.units("type-sequences-exhaustive", unit_seq, [{"maxlen": maxlen, "shard": i, "nshards": ns} for i in range(ns)], procs=ns)
    ctx.units("type-sequences-long", unit_long_seq, [{"lengths": list(range(8, 21)) + [31, 32, 33, 511, 512, 513, 514, 1025] + ([] if q else list(range(21, 31)) + [64, 65, 257, 2049, 4097]), "shard": i, "nshards": ns} for i in range(ns)], procs=ns)
    ctx.units("cross-dialect-shared-keywords", unit_cross, [{"shard": i, "nshards": ns} for i in range(ns)], procs=ns)
    ctx.units("dialects-through-parser", unit_dialects, [{"shard": i, "nshards": ns, "variants": [0, 1] if q else [0, 1, 2, 3, 4, 5]} for i in range(ns)], procs=ns)
    ctx.units("interpreter-modes", unit_modes, [{}])
    ctx.units("compiler-reuse", unit_reuse, [{"n": 450 if q else 4000, "seed": ctx.seed, "shard": i} for i in range(8 if q else 16)], procs=16)
    from . import textdocs
    textdocs.run_text(ctx, "C10")
    ctx.exhaustive = False
    ctx.extra["exhaustive_part"] = ("all sequences over the 5 keyword types of total length <= %d, every split into feature background / rule background / "
                                   "scenario steps, each as plain scenario and as outline with 1 and 2 rows" % maxlen)
    ctx.rule = ("AST-level: all keyword-type sequences up to the bound x all splits across feature background, rule background and scenario; "
                "parser-level: all 80 dialects x 20 shapes x plain/outline with real keywords of each category; oracle = fold from Unknown, "
                "vocabulary check, plain == outline. Non-trivial = a conjunction that comes first, follows an Unknown ('*') step or follows "
                "a background step; distinct = distinct (split, sequence) / document text.")
