"""C14 - rejected documents get errors at the right place with the right expectation."""
from __future__ import annotations

import glob
import json
import os
import re

from vlib import gh, noisy, tables
from vlib.common import REPO, HarnessError, Stats, Violation, hyp, shard_seed, sweep
from vlib.model import Src
from vlib.refparse import ref_parse, sibling_table
from vlib.refs import KINDS, split_lines

SAMPLE = {"Empty": "", "Comment": "  # c", "TagLine": " @t", "FeatureLine": "Feature: f", "RuleLine": " Rule: r", "BackgroundLine": " Background:",
          "ScenarioLine": "  Scenario: s", "ExamplesLine": "   Examples:", "StepLine": "    Given x", "DocStringSeparator": '     """',
          "TableRow": "     | a |", "Language": "#language: en", "Other": "   free text"}
PREFIX_RE = re.compile(r"^\((\d+):(\d+)\): ")


def generic_invariants(case, text, errs, stop_errs):
    """what C14 says about any rejected document, independent of the reference parser"""
    n = len(split_lines(text))
    if not (1 <= len(errs) <= 11):
        raise Violation(case, "rejected document carries %d errors" % len(errs))
    msgs = [m for _, _, m in errs]
    if len(set(msgs)) != len(msgs):
        raise Violation(case, "identical messages reported more than once: %r" % msgs)
    for line, col, msg in errs:
        m = PREFIX_RE.match(msg)
        if not m or int(m.group(1)) != line or int(m.group(2)) != (col or 0):
            raise Violation(case, "message %r does not start with its own position (location line %r column %r)" % (msg, line, col))
        if not (1 <= line <= n + 1):
            raise Violation(case, "error at line %r lies outside the document (%d lines)" % (line, n))
    if len(stop_errs) != 1 or stop_errs[0] != errs[0]:
        raise Violation(case, "stop-at-first-error raised %r, the collecting mode lists %r first" % (stop_errs, errs[0]))


def check_text(case, stats):
    text, dflt = case["text"], case.get("default", "en")
    if gh.names_existing_path(text):
        stats.label("excluded_known_F1")
        return
    ref = ref_parse(text, dflt)
    real = gh.parse(text, dflt)
    kinds = set()
    for _, _, m in ref.errors:
        kinds.add("eof" if "unexpected end of file" in m else "tag" if "A tag may not" in m else "lang" if "Language not" in m else
                  "ragged" if "inconsistent cell" in m else "unexpected")
    via_lookahead = False
    if not ref.accepted:
        lines = split_lines(text)
        for l in ref.unexpected_lines:
            if l >= 2 and lines[l - 2].lstrip().startswith(("@", "#")):
                via_lookahead = True
    stats.case(text, (len(ref.errors) >= 2 and len(kinds) >= 2) or via_lookahead, sample={"text": text, "errors": [e[2] for e in ref.errors[:3]]},
               labels=["accepted" if ref.accepted else "rejected"] + sorted(kinds) + (["capped-11"] if len(ref.errors) == 11 else []) + [case.get("label", "-")])
    if ref.accepted != (real[0] == "ok"):
        raise Violation(case, "document is %s by the grammar/reference but the parser %s\n%s" % (
            "accepted" if ref.accepted else "rejected with %r" % (ref.errors[:2],), "accepts it" if real[0] == "ok" else "rejects it: %r" % (real[1][:2],), text))
    if ref.accepted:
        return
    if real[1] != ref.errors:
        for i, (a, b) in enumerate(zip(real[1], ref.errors)):
            if a != b:
                raise Violation(case, "error #%d is %r, expected %r\n%s" % (i, a, b, text))
        raise Violation(case, "parser reports %d errors, expected %d: %r vs %r\n%s" % (len(real[1]), len(ref.errors), real[1][-2:], ref.errors[-2:], text))
    # a parser that has just been used in stop-at-first-error mode (on a valid document and on this one) and is switched back
    used = gh.Parser(gh.AstBuilder(gh.IdGenerator()))
    gh.parse("Feature: v\n @t\n Scenario: s\n  Given x\n", parser=used, stop=True)
    gh.parse(text, dflt, parser=used, stop=True)
    again = gh.parse(text, dflt, parser=used, stop=False)
    if again != real:
        raise Violation(case, "collecting mode on a parser that was used in stop-at-first-error mode before gives %r, a fresh parser %r\n%s" % (again[1][:3] if again[0] != "ok" else "accepted", real[1][:3], text))
    # ... and ONE matcher that has just been through a document every line of which is a faulty tag line, an unknown language header and a ragged
    # table (whatever a matcher notes about rejected lines belongs to that document)
    um = gh.TokenMatcher(dflt)
    gh.parse("#language: xx-none\n" + "  @a b @c\n" * 40, matcher=um)
    gh.parse("Feature: f\n Scenario: s\n  Given x\n   | a | b |\n   | c |\n" + "   @t u\n" * 30, matcher=um)
    again_m = gh.parse(text, dflt, matcher=um)
    if again_m != real:
        fmt = lambda r_: r_[1][:3] if r_[0] != "ok" else "accepted"
        raise Violation(case, "with a matcher that was used for rejected documents before the parser reports %r, with a fresh matcher %r\n%s" % (fmt(again_m), fmt(real), text))
    stop = gh.parse(text, dflt, stop=True)
    if stop[0] == "ok":
        raise Violation(case, "stop-at-first-error mode accepts a document the collecting mode rejects\n%s" % text)
    generic_invariants(case, text, real[1], stop[1])
    # stream API: only parseError envelopes, one per error, in order (default dialect only: the stream has no dialect option)
    if dflt == "en":
        ev = gh.GherkinEvents(gh.GherkinEvents.Options(print_source=True, print_ast=True, print_pickles=True))
        out = list(ev.enum({"source": {"uri": "u.feature", "data": text, "mediaType": "text/x.cucumber.gherkin+plain"}}))
        want = [{"parseError": {"source": {"uri": "u.feature", "location": ({"line": l, "column": c} if c is not None else {"line": l})}, "message": m}}
                for l, c, m in ref.errors]
        if out != want:
            raise Violation(case, "stream output for a rejected source is %r, expected exactly the parseError envelopes %r" % (out[:3], want[:3]))


# ------------------------------------------------------------------ (a) every state x every line kind
def witnesses():
    """shortest real-text prefix (list of sample lines) that leaves the reference parser in each state"""
    table, _ = sibling_table()
    found = {0: []}
    frontier = [[]]
    for depth in range(12):
        nxt = []
        for pre in frontier:
            for k in KINDS[1:]:
                lines = pre + [SAMPLE[k]]
                r = ref_parse("\n".join(lines) + "\n")
                if r.errors and not all("unexpected end of file" in e[2] for e in r.errors):
                    continue
                s = r.states[-1]
                if s not in found:
                    found[s] = lines
                    nxt.append(lines)
        frontier = nxt
        if len(found) == 42:
            break
    return found


def unit_states(a):
    stats = Stats()
    W = witnesses()
    stats.notes["states_with_witness"] = len(W)
    # states entered only under a successful look-ahead (tags of a scenario / examples block) are always followed by the
    # promised line, so no line can be unexpected there and the document cannot end there: they have no witness by design
    table, _ = sibling_table()
    incoming = {}
    for src, (trans, _) in table.items():
        for kind, la, prods, tgt in trans:
            if tgt != src:
                incoming.setdefault(tgt, []).append(la)
    guarded_only = sorted(t for t, las in incoming.items() if all(la is not None for la in las))
    stats.notes["states_entered_only_via_lookahead"] = guarded_only
    if sorted(set(W) | set(guarded_only)) != sorted(tables.STATES):
        stats.harness_errors.append("witness search reached only %d states (+%d look-ahead-only) of 42" % (len(W), len(guarded_only)))
        return stats

    def gen():
        for s, pre in sorted(W.items()):
            for k in KINDS[1:]:
                for tail in ([], ["   Given y", " Scenario: t"]):
                    yield {"sub": "text", "label": "state-%d-%s" % (s, k), "text": "\n".join(pre + [SAMPLE[k]] + tail) + "\n"}
            yield {"sub": "text", "label": "state-%d-EOF" % s, "text": "\n".join(pre) + ("\n" if pre else "")}
            yield {"sub": "text", "label": "state-%d-EOF-nonl" % s, "text": "\n".join(pre)}
    sweep(stats, gen(), check_text)
    return stats


# ------------------------------------------------------------------ (b) noisy documents, (c) many faults
def unit_noisy(a):
    stats = Stats()
    strat = noisy.st_noisy().map(lambda x: {"sub": "text", "text": x[0], "default": x[1], "label": x[2]})
    hyp(stats, strat, check_text, a["n"], shard_seed(a["seed"], a["shard"], 14))
    return stats


def g_many_faults(s):
    lines = ["Feature: f"] if s.int(4) else []
    pool = ["garbage %d", "  @a b%d", " Scenario: s%d", "  Given x%d", "   | a | b |", "   | c |", "Examples:", "Feature: again %d", "  Background:", '   """', "@t%d", "# c", "",
            "#language: xx", " Rule: r%d", "junk", "junk", " @x y", "  * z"]
    for i in range(s.rng(8, 40)):
        l = s.choice(pool)
        lines.append(l % i if "%d" in l else l)
    return "\n".join(lines) + s.choice(["\n", ""])


def unit_many(a):
    from hypothesis import strategies as st
    stats = Stats()
    strat = st.binary(min_size=200, max_size=200).map(lambda b: {"sub": "text", "label": "many-faults", "text": g_many_faults(Src(b))})
    hyp(stats, strat, check_text, a["n"], shard_seed(a["seed"], a["shard"], 15))
    return stats


# ------------------------------------------------------------------ (c') systematic fault combinations
BLOCKS = {
    "step": ["  Given x"], "table-ok": ["   | a | b |", "   | c | d |"], "table-ragged": ["   | a | b |", "   | c |"], "tag-ok": [" @ok"], "tag-bad": [" @bad tag"],
    "tag-bad2": ["  @x @y z"], "tag-space": [" @ ok @\tfine"], "tag-space-bad": ["@ a b"], "tag-glued-bad": [" @smoke test@wip"], "garbage": ["garbage"], "scenario": [" Scenario: s"], "examples": ["  Examples:"], "outline": [" Scenario Outline: o"], "comment": [" # c"],
    "blank": [""], "doc-open": ['   """'], "lang-bad": ["#language: xx"], "rule": [" Rule: r"], "background": [" Background:"], "feature": ["Feature: again"],
}
BLOCK_NAMES = sorted(BLOCKS)


def unit_combos(a):
    import itertools
    stats = Stats()

    def gen():
        n = 0
        for L in a["lengths"]:
            for combo in itertools.product(BLOCK_NAMES, repeat=L):
                n += 1
                if n % a["nshards"] != a["shard"]:
                    continue
                if L == a["sampled_length"] and (n // a["nshards"]) % a["sample"] != a["seed"] % a["sample"]:
                    continue
                lines = ["Feature: f", " Scenario: s", "  Given x"]
                for b in combo:
                    lines += BLOCKS[b]
                yield {"sub": "text", "label": "combo", "text": "\n".join(lines) + "\n"}
    sweep(stats, gen(), check_text)
    return stats


# ------------------------------------------------------------------ (c'') documents that quote the parser's own messages
def quoted_cases():
    """an unexpected line whose text is, verbatim, the message a later line will produce (documents about parser messages):
    both faults must still be reported (de-duplication is by identical message, not by resemblance)"""
    prefixes = [["Feature: f"], ["Feature: f", " Scenario: s", "  Given x"], ["Feature: f", " Scenario: s", "  Given x", "   | a |"],
                ["Feature: f", " Rule: r", "  Background:", "   Given b", "   \"\"\"", "   \"\"\""], [], ["@t"], ["Feature: f", " Scenario Outline: o", "  Given <a>", "  Examples:", "   | a |"]]
    cases = []
    for pre in prefixes:
        for gap in ([], [""], ["# c", ""]):
            for later in ("oops", "  Examples: late", "| stray |", "@a b"):
                lines = pre + ["PLACEHOLDER"] + gap + [later]
                ref = ref_parse("\n".join(lines) + "\n")
                target = len(pre) + 1 + len(gap) + 1
                msgs = [m for l, c, m in ref.errors if l == target]
                if not msgs:
                    continue
                lines[len(pre)] = msgs[0]
                cases.append({"sub": "text", "label": "quoted-message", "text": "\n".join(lines) + "\n"})
                lines2 = list(lines)
                lines2[len(pre)] = "see " + msgs[0] + " above"
                cases.append({"sub": "text", "label": "quoted-message", "text": "\n".join(lines2) + "\n"})
    return cases


def sentinel_cases():
    """lines whose text is a word the implementation uses internally for something else (end of input, token kinds, 'nothing'), on the last line
    with and without a line break; an unknown-language header as the n-th fault (n around the error limit); two ragged tables in one document"""
    cases = []
    pres = [["Feature: f", " Scenario: s", "  Given x"], ["Feature: f", " Scenario: s", "  Given x", "   | a |"], ["Feature: f", " Scenario: s", "  Given x", '   """', "   open"], ["Feature: f"], []]
    for pre in pres:
        for word in ("EOF", "#EOF", "None", "Other", "Empty", "TableRow", "False", "0", "null", "\x00"):
            for ind in ("", "    "):
                for end in ("", "\n"):
                    cases.append({"sub": "text", "label": "sentinel-word", "text": "\n".join(pre + [ind + word]) + end})
    for n in range(0, 14):
        for tail in (["more garbage"], ["Feature: f", " bad"], []):
            cases.append({"sub": "text", "label": "unknown-language-as-nth-fault", "text": "\n".join(["stray %d" % i for i in range(n)] + ["#language: xx-unknown"] + tail) + "\n"})
            cases.append({"sub": "text", "label": "unknown-language-as-nth-fault", "text": "\n".join(["@a b%d" % i for i in range(n)] + ["  # language: zz"] + tail) + "\n"})
    for first in ("#language: xx-unknown", "  # language: zz"):
        for second in ("#language: fr", "# language: yy-unknown", "#language: en", "# language: no"):
            for body in ("Fonctionnalit\u00e9: f\n Sc\u00e9nario: s\n  Soit x\n", "Feature: f\n Scenario: s\n  Given x\n", "Egenskap: f\n"):
                cases.append({"sub": "text", "label": "header-after-unknown-header", "text": first + "\n" + second + "\n" + body})
                cases.append({"sub": "text", "label": "header-after-unknown-header", "text": first + "\n# c\n\n" + second + "\n@t\n" + body})
    for hdr in ("#language: tlh-x", "# language: qq"):
        cases.append({"sub": "text", "label": "same-unknown-header-twice", "text": hdr + "\n# c\n" + hdr + "\nFeature: f\n"})
        cases.append({"sub": "text", "label": "same-unknown-header-twice", "text": hdr + "\n" + hdr + "\n" + hdr + "\n"})
    for tl in ("@a b@c d", "@smoke test @slow test", "@a b @c d @e f", " @ok @a b @fine @c d # e f", "@a b\n@c d", "@a\tb @c\xa0d"):
        for pre in (["Feature: f"], [], ["Feature: f", " Scenario: s", "  Given x"]):
            cases.append({"sub": "text", "label": "several-whitespace-tags", "text": "\n".join(pre + [tl, " Scenario: t", "  Given y"]) + "\n"})
    for n in (39, 40, 41, 100):
        for hdr in ("#language: fr", "# language: qq-unknown"):
            cases.append({"sub": "text", "label": "header-below-a-banner", "text": "# banner\n" * (n - 1) + hdr + "\nFonctionnalit\u00e9: f\n Sc\u00e9nario: s\n  Soit x\n"})
            cases.append({"sub": "text", "label": "header-below-a-banner", "text": "\n" * (n - 1) + hdr + "\nFeature: f\n"})
    for k in (2, 3, 12):
        tables = []
        for i in range(k):
            tables += [" Scenario: s%d" % i, "  Given x", "   | a | b |", "   | c |"]
        cases.append({"sub": "text", "label": "several-ragged-tables", "text": "\n".join(["Feature: f"] + tables) + "\n"})
        cases.append({"sub": "text", "label": "several-ragged-tables", "text": "\n".join(["Feature: f", " Scenario Outline: o", "  Given <a>"] + ["  Examples:\n   | a | b |\n   | c |"] * k) + "\n"})
    return cases


def unit_quoted(a):
    stats = Stats()
    sweep(stats, quoted_cases(), check_text)
    sweep(stats, sentinel_cases(), check_text)
    return stats


# ------------------------------------------------------------------ tag lines, exhaustively
def check_tagline(case, stats):
    from vlib.refs import TagError, ref_tags
    line = case["line"]
    try:
        want = ("tags", ref_tags(line + "\n"))
    except TagError as e:
        want = ("error", e.column)
    try:
        got = ("tags", [(c["text"], c["column"]) for c in gh.GherkinLine(line + "\n", 3).tags])
    except gh.ParserException as e:
        got = ("error", e.location.get("column"))
        if e.location.get("line") != 3 or str(e) != "(3:%d): A tag may not contain whitespace" % e.location.get("column"):
            raise Violation(case, "tag line %r: error %r with location %r" % (line, str(e), e.location))
    stats.case(line, line.count("@") >= 2 and (" " in line.strip() or "#" in line), sample=case, labels=[want[0]])
    if got != want:
        raise Violation(case, "tag line %r: %r, expected %r" % (line, got, want))


def unit_taglines(a):
    import itertools
    stats = Stats()

    def gen():
        n = 0
        for L in range(1, a["L"] + 1):
            for tup in itertools.product("@# ab\t", repeat=L):
                line = "".join(tup)
                if not line.lstrip().startswith("@"):
                    continue
                n += 1
                if n % a["nshards"] == a["shard"]:
                    yield {"sub": "tagline", "line": line}
    sweep(stats, gen(), check_tagline)
    return stats


# ------------------------------------------------------------------ (d) bad corpus
def check_bad(case, stats):
    f = os.path.join(REPO, "testdata", "bad", case["file"])
    text = open(f, encoding="utf8", newline="").read()
    gold = [json.loads(l)["parseError"] for l in open(f + ".errors.ndjson", encoding="utf8") if l.strip()]
    want = [(g["source"]["location"]["line"], g["source"]["location"].get("column"), g["message"]) for g in gold]
    ref = ref_parse(text)
    if ref.errors != want:
        raise HarnessError("reference parser does not reproduce golden errors of %s: %r vs %r" % (case["file"], ref.errors, want))
    stats.case(case["file"], len(want) >= 2, sample=case)
    real = gh.parse(text)
    if real[0] == "ok" or real[1] != want:
        raise Violation(case, "errors for %s are %r, golden file says %r" % (case["file"], real[1] if real[0] != "ok" else "accepted", want))


def unit_bad(a):
    stats = Stats()
    files = sorted(glob.glob(os.path.join(REPO, "testdata", "bad", "*.feature")))
    sweep(stats, [{"sub": "bad", "file": os.path.basename(f)} for f in files], check_bad)
    sweep(stats, [{"sub": "text", "label": "good-corpus", "text": t} for n, t in noisy.corpus_texts()], check_text)
    return stats


# ------------------------------------------------------------------ expected lists (static part)
def unit_expected(a):
    stats = Stats()
    try:
        py = tables.python_dynamic()["states"]
    except Violation as v:
        stats.fail(v.case, v.message)
        return stats
    sib, _ = sibling_table()
    for s in tables.STATES:
        case = {"sub": "expected", "state": s}
        stats.case(("expected", s), True, sample={"state": s, "expected": py[s][1]})
        if py[s][1] != sib[s][1]:
            stats.fail(case, "state %d: unexpected-line errors list %r, sibling parsers print %r" % (s, py[s][1], sib[s][1]))
            break
        tail = tables.eof_tail(s)
        accepts_eof = any(k == "EOF" for k, _, _, _ in sib[s][0])
        if (tail[0] == "ok") != accepts_eof or (tail[0] == "error" and tail[1] != sib[s][1]):
            stats.fail(case, "state %d at end of file: parser %r, siblings %s" % (s, tail, "accept" if accepts_eof else sib[s][1]))
            break
    return stats


def check_expected(case, stats):
    st_ = unit_expected({})
    for f in st_.failures:
        raise Violation(f["case"], f["message"])


MODE_SCRIPT = r"""
import json, sys
sys.path.insert(0, sys.argv[1]); sys.path.insert(0, sys.argv[2])
from vlib import gh
texts = json.load(sys.stdin)
print(json.dumps([[gh.parse(t, stop=False), gh.parse(t, stop=True)] for t in texts]))
"""


def check_modes(case, stats):
    """the error reports do not depend on how the interpreter was started (assertions / docstrings stripped, C locale)"""
    import itertools
    import json
    import subprocess
    import sys
    from vlib.common import REPO, VERIF
    texts = [t for n, t in noisy.corpus_texts() if "/bad/" in n or "bad" in n]
    for combo in itertools.product(BLOCK_NAMES, repeat=2):
        lines = ["Feature: f", " Scenario: s", "  Given x"]
        for b in combo:
            lines += BLOCKS[b]
        texts.append("\n".join(lines) + "\n")
    here = [[list(map(_jsonable, gh.parse(t, stop=False))), list(map(_jsonable, gh.parse(t, stop=True)))] for t in texts]
    stats.case(("modes", case["name"]), True, sample={"name": case["name"], "documents": len(texts)})
    r = subprocess.run([sys.executable] + case["flags"] + ["-X", "utf8", "-c", MODE_SCRIPT, os.path.join(REPO, "python"), VERIF], input=json.dumps(texts), capture_output=True, text=True, timeout=600,
                       env=dict(os.environ, PYTHONDONTWRITEBYTECODE="1", **case.get("env", {})))
    if r.returncode != 0:
        raise Violation(case, "a fresh interpreter started with %r does not get through the rejected documents: %s" % (case["flags"], r.stderr[-500:]))
    there = json.loads(r.stdout)
    if len(there) != len(texts):
        raise Violation(case, "the interpreter started with %r reported on %d of %d documents" % (case["flags"], len(there), len(texts)))
    for t, a, b in zip(texts, here, there):
        if json.loads(json.dumps(a)) != b:
            raise Violation(dict(case, text=t), "errors reported in an interpreter started with %r differ: %r vs %r\n%s" % (case["flags"], b[0][1][:2] if b[0][0] == "err" else b[0][0], a[0][1][:2] if a[0][0] == "err" else a[0][0], t))


def _jsonable(x):
    return x


def unit_dialect_spellings(a):
    """a dialect code is known only exactly as listed: other capitalisation, underscore for hyphen, a bare region ... are reported as not supported"""
    from vlib.refs import DIALECTS
    stats = Stats()
    cases = []
    for d in sorted(DIALECTS):
        for v in sorted({d.lower(), d.upper(), d.swapcase(), d.title(), d.replace("-", "_"), d.replace("-", ""), d.split("-")[-1], d.split("-")[0], d + "-x"} | {"nb", "nn", "iw", "in", "zh", "mk", "sr", "hy", "jp", "cn", "ua", "cz", "dk", "gr"}):
            if v and v not in DIALECTS:
                cases.append({"sub": "text", "text": "#language: %s\n%s: f\n" % (v, DIALECTS[d]["feature"][0]), "label": "dialect-code-spelling"})
                cases.append({"sub": "text", "text": "  # language: %s\n@t\n" % v, "label": "dialect-code-spelling"})
    sweep(stats, cases, check_text)
    return stats


def unit_modes(a):
    stats = Stats()
    sweep(stats, [{"sub": "modes", "name": "-OO", "flags": ["-OO"]}, {"sub": "modes", "name": "-O", "flags": ["-O"]},
                  {"sub": "modes", "name": "c-locale", "flags": [], "env": {"LC_ALL": "C", "LANG": "C"}}], check_modes)
    return stats


def replay(case, stats):
    if case.get("sub") == "modes":
        return check_modes(case, stats)
    return {"text": check_text, "bad": check_bad, "expected": check_expected, "tagline": check_tagline}[case["sub"]](case, stats)


def run(ctx):
    q = ctx.quick
    ctx.units("expected-lists", unit_expected, [{}])
    ctx.units("corpus", unit_bad, [{}])
    ctx.units("state-x-kind", unit_states, [{}])
    from . import magnitude
    magnitude.run_big(ctx, "c14", "check_text", "text")
    ctx.units("noisy-documents", unit_noisy, [{"n": 1050 if q else 9000, "seed": ctx.seed, "shard": i} for i in range(8 if q else 16)], procs=16)
    ns = 16
    ctx.units("fault-combinations", unit_combos, [{"lengths": [1, 2, 3, 4] if q else [1, 2, 3, 4, 5], "sampled_length": 4 if q else 5, "sample": 2 if q else 3, "seed": ctx.seed,
                                                   "shard": i, "nshards": ns} for i in range(ns)], procs=ns)
    ctx.units("tag-lines-exhaustive", unit_taglines, [{"L": 7 if q else 8, "shard": i, "nshards": 16} for i in range(16)], procs=16)
    ctx.units("quoted-messages", unit_quoted, [{}])
    ctx.units("many-faults", unit_many, [{"n": 225 if q else 2000, "seed": ctx.seed, "shard": i} for i in range(8 if q else 16)], procs=16)
    ctx.exhaustive = False
    ctx.extra["exhaustive_part"] = ("42 parser states x 13 line kinds (+ end of file, with and without final newline) as real English text; 42 expected lists vs siblings; all sequences of "
                                   "<= %d of %d fault/structure building blocks (ragged table, tag with blanks, garbage, unknown language, open doc string, ...) after a scenario step, plus a 1/%d sample of length %d" % (
                                       3 if q else 4, len(BLOCKS), 2 if q else 3, 4 if q else 5))
    ctx.units("dialect-code-spellings", unit_dialect_spellings, [{}])
    ctx.units("interpreter-modes", unit_modes, [{}])
    ctx.rule = ("every document is run through the real parser (collecting and stop mode) and the stream API, and through the table-driven reference parser "
                "(sibling tables + reference lexer); the ordered error lists must be equal in (line, column, message); independent invariants: message starts "
                "with its own position, unique, <= 11, inside the document, stop mode = first collected error, rejected source yields only parseError envelopes. "
                "Non-trivial = >=2 faults of >=2 kinds, or an unexpected line right after a tag/comment run (reached through look-ahead); distinct = distinct text.")
    ctx.assumptions += ["reference parser vlib/refparse.py (calibrated: reproduces every golden errors file on this run)",
                        "source texts naming an existing path are excluded (known finding F1)"]
