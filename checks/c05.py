"""C05 - every keyword of every dialect is recognised in its role; foreign ones are not."""
from __future__ import annotations

import collections

from hypothesis import strategies as st

from vlib import gh
from vlib.common import Stats, Violation, hyp, shard_seed, sweep
from vlib.model import Src, cf_kinds
from vlib.refs import DIALECTS, LANGUAGE_HEADER, MASTER_LANGUAGES, PACKAGE_LANGUAGES, STEP_CATS, STEP_TYPE, TITLE_CATS, lead_ws, step_keywords, trim

LAYOUTS = [("  ", " ", ""), ("", "", ""), ("\t ", "  ", " \t")]
START_EXPECTED = "#EOF, #Language, #TagLine, #FeatureLine, #Comment, #Empty"


def first_title(d, cats, line):
    for c in cats:
        for k in DIALECTS[d][c]:
            if line.startswith(k + ":"):
                return k
    return None


def expected_step(d, line):
    order = step_keywords(d)
    k = next(k for k, _ in order if line.startswith(k))
    cats = [c for kk, c in order if kk == k]
    return k, (STEP_TYPE[cats[0]] if len(cats) == 1 else "Unknown")


def check_kw(case, stats):
    d, cat, kw, mode, lay = case["dialect"], case["cat"], case["kw"], case["mode"], case["layout"]
    ind, sep, trail = LAYOUTS[lay]
    D = DIALECTS[d]
    pre = [] if mode == "default" else ["# language: " + d]
    dflt = d if mode in ("default", "header-same") else ("en" if d != "en" else "fr")
    F, SC, SO = D["feature"][0], D["scenario"][0], D["scenarioOutline"][0]
    stats.case((d, cat, kw, mode, lay), True, sample=case, labels=[cat, mode] + (["no-space-step-keyword"] if cat in STEP_CATS and not kw.endswith(" ") else []))
    if cat in TITLE_CATS:
        name = "name" if lay != 2 else "again " + kw + ": twice"   # layout 2: the name repeats its own keyword and colon
        line = kw + ":" + sep + name + trail
        body = {"feature": [ind + line],
                "rule": [F + ":", ind + line],
                "background": [F + ":", ind + line],
                "scenario": [F + ":", ind + line],
                "scenarioOutline": [F + ":", ind + line],
                "examples": [F + ":", " " + SO + ":", ind + line]}[cat]
        path = {"feature": [], "rule": ["children", 0, "rule"], "background": ["children", 0, "background"], "scenario": ["children", 0, "scenario"],
                "scenarioOutline": ["children", 0, "scenario"], "examples": ["children", 0, "scenario", "examples", 0]}[cat]
        cats = ["scenario", "scenarioOutline"] if cat in ("scenario", "scenarioOutline") else [cat]
        want_kw = first_title(d, cats, line)
        text = "\n".join(pre + body) + "\n"
        r = gh.parse(text, dflt)
        if r[0] != "ok":
            raise Violation(case, "%s keyword %r of dialect %s not recognised (%s): %r\n%s" % (cat, kw, d, mode, r[1][:2], text))
        f = r[1]["feature"]
        if f["language"] != d:
            raise Violation(case, "feature reports language %r, dialect in force is %r\n%s" % (f["language"], d, text))
        node = f
        try:
            for p in path:
                node = node[p]
        except (KeyError, IndexError):
            raise Violation(case, "%s keyword %r of dialect %s: no %s in the AST\n%s" % (cat, kw, d, cat, text))
        if node["keyword"] != want_kw or node["name"] != name or node["location"]["column"] != len(ind) + 1:
            raise Violation(case, "%s line %r: AST says keyword %r name %r column %r; expected keyword %r name %r column %d" % (
                cat, line, node["keyword"], node["name"], node["location"]["column"], want_kw, name, len(ind) + 1))
        if lay == 0:
            # keyword and colon alone (no name) as the very last line, with and without a final line break
            for end in ("\n", "", " "):
                text = "\n".join(pre + body[:-1] + [ind + kw + ":"]) + end
                r = gh.parse(text, dflt)
                node = r[1]["feature"] if r[0] == "ok" else None
                try:
                    for p in path:
                        node = node[p]
                except (KeyError, IndexError, TypeError):
                    node = None
                if not node or node["keyword"] != first_title(d, cats, kw + ":") or node["name"] != "":
                    raise Violation(case, "%s keyword %r of %s alone on the last line (document ends with %r): %r\n%r" % (cat, kw, d, end, r[1][:2] if r[0] != "ok" else node, text))
    else:
        # layout 1 / 2: the step text starts with a combining mark (it belongs to the text, the keyword is still a prefix of the line)
        line = kw + ["text", "\u0301text", "\u3099\u094dtext"][lay] + trail
        want_kw, want_type = expected_step(d, line)
        text = "\n".join(pre + [F + ":", " " + SC + ":", ind + line]) + "\n"
        r = gh.parse(text, dflt)
        if r[0] != "ok":
            raise Violation(case, "%s keyword %r of dialect %s not recognised as a step (%s): %r\n%s" % (cat, kw, d, mode, r[1][:2], text))
        steps = r[1]["feature"]["children"][0]["scenario"]["steps"]
        if len(steps) != 1:
            raise Violation(case, "step keyword %r of %s: %d steps in the AST\n%s" % (kw, d, len(steps), text))
        s = steps[0]
        want_text = trim(line[len(want_kw):])
        if (s["keyword"], s["keywordType"], s["text"]) != (want_kw, want_type, want_text):
            raise Violation(case, "step line %r in %s: AST (keyword, type, text) = %r, the language table gives %r" % (
                line, d, (s["keyword"], s["keywordType"], s["text"]), (want_kw, want_type, want_text)))
        if r[1]["feature"]["language"] != d:
            raise Violation(case, "feature reports language %r, dialect in force is %r" % (r[1]["feature"]["language"], d))
        if lay == 0 and " " in kw.strip():
            # a description line that begins with the first word of this multi-word keyword (without being a step), then the step itself
            first = kw.split(" ")[0]
            dline = first + " zzz, not a step"
            if not any(dline.startswith(k2) for k2, _ in step_keywords(d)):
                text = "\n".join(pre + [F + ":", " " + SC + ":", "  " + dline, "  " + first, ind + kw + "text"]) + "\n"
                r = gh.parse(text, dflt)
                sc_ = r[1]["feature"]["children"][0]["scenario"] if r[0] == "ok" else None
                if not sc_ or len(sc_["steps"]) != 1 or (sc_["steps"][0]["keyword"], sc_["steps"][0]["text"]) != (want_kw, "text") or sc_["description"] != "  " + dline + "\n  " + first:
                    raise Violation(case, "step keyword %r of %s after description lines starting with its first word: %r\n%s" % (
                        kw, d, r[1][:2] if r[0] != "ok" else (sc_["description"], [(x["keyword"], x["text"]) for x in sc_["steps"]]), text))
        if lay == 0:
            # the keyword alone (a step without text) as the very last line, with and without a final line break
            bk, bt = expected_step(d, kw)
            for end in ("\n", "", " ", "\r\n"):
                text = "\n".join(pre + [F + ":", " " + SC + ":", ind + kw]) + end
                r = gh.parse(text, dflt)
                steps = r[1]["feature"]["children"][0]["scenario"]["steps"] if r[0] == "ok" and r[1]["feature"]["children"] else None
                if not steps or len(steps) != 1 or (steps[0]["keyword"], steps[0]["keywordType"], steps[0]["text"]) != (bk, bt, trim(kw[len(bk):])):
                    raise Violation(case, "step keyword %r of %s alone on the last line (document ends with %r): %r, expected one step (%r, %r, %r)\n%r" % (
                        kw, d, end, r[1][:2] if r[0] != "ok" else [(x["keyword"], x["keywordType"], x["text"]) for x in steps or []] or "no step", bk, bt, trim(kw[len(bk):]), text))


def unit_positive(a):
    stats = Stats()

    def gen():
        for i, d in enumerate(sorted(DIALECTS)):
            if i % a["nshards"] != a["shard"]:
                continue
            for cat in TITLE_CATS + STEP_CATS:
                for kw in DIALECTS[d][cat]:
                    for mode in ("default", "header", "header-same"):
                        for lay in range(len(LAYOUTS) if mode != "header-same" else 1):
                            yield {"sub": "kw", "dialect": d, "cat": cat, "kw": kw, "mode": mode, "layout": lay}
    sweep(stats, gen(), check_kw)
    return stats


# ------------------------------------------------------------------ adjacent steps: every ordered pair of step keywords of a dialect
def check_pair(case, stats):
    d, k1, k2 = case["dialect"], case["k1"], case["k2"]
    D = DIALECTS[d]
    l1, l2, l3 = k1 + "one", k2 + "two", k1 + "three"
    lines_ = [l1, l2, l3]
    if k1 != k2 and (k1.startswith(k2) or k2.startswith(k1)):
        # keywords one of which prefixes the other: several uses of the one, then the other (how often a keyword was used plays no part)
        lines_ = [k1 + "a", k1 + "b", k1 + "c", k1 + "d", k2 + "e", k1 + "f", k2 + "g"]
    text = "# language: %s\n%s: f\n %s: s\n" % (d, D["feature"][0], D["scenario"][0]) + "".join("  %s\n" % l_ for l_ in lines_)
    stats.case((d, k1, k2), k1 != k2 and (k1.startswith(k2) or k2.startswith(k1)), sample=case)
    r = gh.parse(text, "en" if d != "en" else "fr")
    if r[0] != "ok":
        raise Violation(case, "two adjacent %s steps %r, %r rejected: %r" % (d, l1, l2, r[1][:2]))
    steps = r[1]["feature"]["children"][0]["scenario"]["steps"]
    got = [(s_["keyword"], s_["keywordType"], s_["text"]) for s_ in steps]
    want = []
    for line in lines_:
        kw, ty = expected_step(d, line)
        want.append((kw, ty, trim(line[len(kw):])))
    if got != want:
        raise Violation(case, "%s steps %r: AST (keyword, type, text) = %r, the language table gives %r" % (d, lines_, got, want))


def unit_pairs(a):
    stats = Stats()

    def gen():
        for i, d in enumerate(sorted(DIALECTS)):
            if i % a["nshards"] != a["shard"]:
                continue
            kws = []
            for k, _ in step_keywords(d):
                if k not in kws:
                    kws.append(k)
            for k1 in kws:
                for k2 in kws:
                    yield {"sub": "pair", "dialect": d, "k1": k1, "k2": k2}
    sweep(stats, gen(), check_pair)
    return stats


# ------------------------------------------------------------------ near misses of title keywords
def check_nearmiss(case, stats):
    d, cat, kw, variant = case["dialect"], case["cat"], case["kw"], case["variant"]
    D = DIALECTS[d]
    line = {"bare": kw, "plus-char": kw + "x", "blank-colon": kw + " :", "cut": kw[:-1] + ":", "bare-nl-less": kw, "lower": kw.lower() + ":", "colon-first": ":" + kw,
            "fullwidth-colon": kw + "\uff1a x", "small-colon": kw + "\ufe55 x", "ratio": kw + "\u2236 x", "modifier-colon": kw + "\ua789x", "semicolon": kw + "; x",
            "zero-width-before-colon": kw + "\u200b: x", "nbsp-before-colon": kw + "\xa0: x"}[variant]
    # context: under a scenario header of the same dialect, at the end of the document (bare-nl-less: no final line break)
    text = "# language: %s\n%s: f\n  %s: s\n    %s%s" % (d, D["feature"][0], D["scenario"][0], line, "" if variant == "bare-nl-less" else "\n")
    kinds = cf_kinds(d, line + "\n")
    stats.case((d, cat, kw, variant), True, sample=case, labels=[variant])
    if kinds or trim(line).startswith("#"):
        stats.label("means-something(skipped)")
        return
    r = gh.parse(text, "en" if d != "en" else "fr")
    if r[0] != "ok":
        raise Violation(case, "line %r (not a keyword line of %s) under a scenario header should be description text, got %r" % (line, d, r[1][:2]))
    f = r[1]["feature"]
    sc = f["children"][0]["scenario"]
    if len(f["children"]) != 1 or sc["steps"] or sc["examples"] or sc["description"] != "    " + line:
        raise Violation(case, "line %r is not a keyword line of %s, yet the AST has children=%d steps=%r examples=%d description=%r" % (
            line, d, len(f["children"]), sc["steps"], len(sc["examples"]), sc["description"]))


def unit_nearmiss(a):
    stats = Stats()

    def gen():
        for i, d in enumerate(sorted(DIALECTS)):
            if i % a["nshards"] != a["shard"]:
                continue
            for cat in TITLE_CATS:
                for kw in DIALECTS[d][cat]:
                    for v in ("bare", "plus-char", "blank-colon", "cut", "bare-nl-less", "lower", "colon-first", "fullwidth-colon", "small-colon", "ratio", "modifier-colon",
                              "semicolon", "zero-width-before-colon", "nbsp-before-colon"):
                        yield {"sub": "nearmiss", "dialect": d, "cat": cat, "kw": kw, "variant": v}
    sweep(stats, gen(), check_nearmiss)
    return stats


# ------------------------------------------------------------------ foreign keywords
def all_keywords():
    """[(keyword, is title keyword, a dialect that lists it)]"""
    out = collections.OrderedDict()
    for d in sorted(DIALECTS):
        for cat in TITLE_CATS + STEP_CATS:
            for kw in DIALECTS[d][cat]:
                out.setdefault((kw, cat in TITLE_CATS), d)
    return [(k, t, o) for (k, t), o in out.items()]


def check_foreign(case, stats):
    d, kw, title = case["dialect"], case["kw"], case["title"]
    line = (kw + ": x") if title else (kw + "x")
    if cf_kinds(d, line + "\n") or trim(line).startswith("#") or LANGUAGE_HEADER.match(line):
        stats.label("means-something-in-this-dialect(skipped)")
        return
    stats.case((d, kw, title), True, sample=case)
    D = DIALECTS[d]
    r = gh.parse(line + "\n", d)
    col = lead_ws(line) + 1
    want = [(1, col, "(1:%d): expected: %s, got '%s'" % (col, START_EXPECTED, trim(line)))]
    if r[0] == "ok" or r[1] != want:
        raise Violation(case, "foreign keyword line %r as first line of a %s document: %r, expected rejection %r" % (line, d, r[1] if r[0] != "ok" else "accepted", want))
    text = "%s: f\n  %s: s\n    %s\n" % (D["feature"][0], D["scenario"][0], line)
    r = gh.parse(text, d)
    if r[0] != "ok":
        raise Violation(case, "foreign keyword line %r after a %s scenario header should be plain description text, got %r" % (line, d, r[1][:2]))
    sc = r[1]["feature"]["children"][0]["scenario"]
    if sc["steps"] or sc["description"] != "    " + line or len(r[1]["feature"]["children"]) != 1:
        raise Violation(case, "foreign keyword line %r in %s: steps %r description %r" % (line, d, sc["steps"], sc["description"]))
    # the same with a matcher whose configured default is a dialect that does list the keyword; the document selects `d` by header
    owner = case.get("owner")
    if owner and owner != d:
        r = gh.parse("# language: %s\n" % d + text, owner)
        ok = r[0] == "ok" and len(r[1]["feature"]["children"]) == 1 and not r[1]["feature"]["children"][0]["scenario"]["steps"] and \
            r[1]["feature"]["children"][0]["scenario"]["description"] == "    " + line
        if not ok:
            raise Violation(case, "line %r is a keyword line in %s (the matcher's default) but not in %s (selected by the header): it must be description text, got %r" % (
                line, owner, d, r[1] if r[0] != "ok" else r[1]["feature"]["children"]))


def unit_foreign(a):
    stats = Stats()
    kws = all_keywords()

    def gen():
        n = 0
        for i, d in enumerate(sorted(DIALECTS)):
            if i % a["nshards"] != a["shard"]:
                continue
            own = {(k, c in TITLE_CATS) for c in TITLE_CATS + STEP_CATS for k in DIALECTS[d][c]}
            for kw, title, owner in kws:
                if (kw, title) in own:
                    continue
                n += 1
                if a["sample"] and n % a["sample"] != a["seed"] % a["sample"]:
                    continue
                yield {"sub": "foreign", "dialect": d, "kw": kw, "title": title, "owner": owner if n % 4 == 0 else None}
    sweep(stats, gen(), check_foreign)
    return stats


# ------------------------------------------------------------------ header spellings and positions
def g_header(s):
    ws = ["", " ", "\t", "  ", "\xa0", "　", " " * 23, " " * 24, " " * 31, "\t" * 33, " " * 100, " " * 1000]
    word = s.choice(["language", "language", "language", "Language", "languag", "lang uage", "LANGUAGE"])
    name = s.choice(["fr", "fr", "en", "no", "en-lol", "en-Scouse", "sr-Cyrl", "zh-CN", "zz", "xx-yy", "f1", "fr x", "", "fr,en", "_", "-", "émoji",
                     "[fr]", "`en`", "en^", "fr\\", "es-419", "fr2", "français", "en.us", "EN", "Fr", "en_au", "en-au", "en_lol", "sr_Cyrl", "zh_CN", "en-tx", "en_tx",
                     "fr]", "^", "no\x0b", "日本", "ja", "en-", "-en", "e n", "pt--BR", "_fr", "fr_", "a__b", "-_-", "en-_au"])
    colon = s.choice([":", ":", ":", "", "::", " ="])
    hdr = s.choice(ws) + "#" + s.choice(ws) + word + s.choice(ws) + colon + s.choice(ws) + name + s.choice(ws + ["\r", " \t", " x", "#"])
    pos = s.choice(["top", "top", "after-comment", "after-blank", "after-tag", "after-feature", "second-header", "after-banner"])
    return {"sub": "header", "header": hdr, "position": pos, "default": s.choice(["en", "en", "no", "fr"]), "reuse": s.int(2)}


def check_header(case, stats):
    hdr, pos, dflt = case["header"], case["position"], case["default"]
    m = LANGUAGE_HEADER.match(hdr[lead_ws(hdr):] + "\n") if trim(hdr) else None
    name = m.group(1) if m else None
    top = pos in ("top", "after-comment", "after-blank", "after-banner")
    active = top and name is not None
    lang = name if (active and name in DIALECTS) else (dflt if pos != "second-header" else "no")
    D = DIALECTS[lang]
    feat = D["feature"][0] + ": f"
    lines = {"top": [hdr, feat], "after-banner": ["# licence banner line"] * 23 + [""] * 20 + [hdr, feat], "after-comment": ["# c", hdr, feat], "after-blank": ["", "  ", hdr, feat], "after-tag": ["@t", hdr, feat],
             "after-feature": [feat, hdr, " " + D["scenario"][0] + ": s"], "second-header": ["#language: no", hdr, feat]}[pos]
    text = "\n".join(lines) + "\n"
    stats.case(text, m is not None or "anguag" in hdr, sample=case, labels=[pos, "matches" if m else "near-miss", "known" if name in DIALECTS else "unknown" if name else "-"])
    matcher = gh.TokenMatcher(dflt)
    if case["reuse"]:
        # the matcher was used directly before (a pre-scan of another file's header and first lines): parse() starts from a clean matcher anyway
        for pre_line, meth in (("# language: fr", "match_Language"), ('   """', "match_DocStringSeparator"), ("@t", "match_TagLine")):
            getattr(matcher, meth)(gh.Token(gh.GherkinLine(pre_line + "\n", 1), {"line": 1}))
    parser = gh.Parser(gh.AstBuilder(gh.IdGenerator()))
    r = gh.parse(text, parser=parser, matcher=matcher)
    hline = lines.index(hdr) + 1
    if active and name not in DIALECTS:
        col = lead_ws(hdr) + 1
        want0 = (hline, col, "(%d:%d): Language not supported: %s" % (hline, col, name))
        if r[0] == "ok" or r[1] != [want0]:
            raise Violation(case, "unknown dialect %r in header %r: expected exactly one error %r, got %r" % (name, hdr, want0, r[1] if r[0] != "ok" else "accepted"))
    else:
        if r[0] != "ok":
            raise Violation(case, "header line %r (%s, pattern %s): document in dialect %s rejected: %r\n%s" % (hdr, pos, "matches" if m else "does not match", lang, r[1][:2], text))
        if r[1]["feature"]["language"] != lang:
            raise Violation(case, "header line %r (%s): feature language %r, dialect in force should be %r" % (hdr, pos, r[1]["feature"]["language"], lang))
        is_comment = trim(hdr).startswith("#") and not active
        in_comments = [c for c in r[1]["comments"] if c["location"]["line"] == hline]
        if pos == "after-feature" and not trim(hdr).startswith("#"):
            pass  # plain description text
        elif is_comment != bool(in_comments):
            raise Violation(case, "header line %r (%s): %s a plain comment, comments are %r" % (hdr, pos, "should be" if is_comment else "must not be", r[1]["comments"]))
    if case["reuse"]:
        D0 = DIALECTS[dflt]
        k0, t0 = expected_step(dflt, D0["given"][-1] + "x")
        r2 = gh.parse(D0["feature"][0] + ": g\n " + D0["scenario"][0] + ": s\n  " + D0["given"][-1] + "x\n", parser=parser, matcher=matcher)
        if r2[0] == "ok":
            st0 = r2[1]["feature"]["children"][0]["scenario"]["steps"]
            if len(st0) != 1 or (st0[0]["keyword"], st0[0]["keywordType"]) != (k0, t0):
                raise Violation(case, "after a parse with header %r the same matcher reports step %r for a %s step line, the language table gives %r" % (
                    hdr, [(x["keyword"], x["keywordType"]) for x in st0], dflt, (k0, t0)))
        if r2[0] != "ok" or r2[1]["feature"]["language"] != dflt:
            raise Violation(case, "after a parse with header %r the same matcher no longer uses its configured default %r: %r" % (hdr, dflt, r2[1] if r2[0] != "ok" else r2[1]["feature"]["language"]))
        # ... and the same when the next document arrives as a scanner object from which the caller has already taken a leading line
        sc = gh.TokenScanner("# taken by the caller\n" + D0["feature"][0] + ": g\n " + D0["scenario"][0] + ": s\n  " + D0["given"][-1] + "x\n")
        sc.read()
        gh.parse(text, parser=parser, matcher=matcher)
        r3 = gh.parse(sc, parser=parser, matcher=matcher)
        if r3[0] != "ok" or r3[1]["feature"]["language"] != dflt:
            raise Violation(case, "after a parse with header %r the same matcher, given a scanner object the caller already read a line from, does not use its configured default %r: %r" % (
                hdr, dflt, r3[1][:2] if r3[0] != "ok" else r3[1]["feature"]["language"]))


def check_after_unknown(case, stats):
    """a header naming an unknown dialect is reported, nothing more: a second header below it (still above the feature) selects the dialect"""
    d = case["dialect"]
    D = DIALECTS[d]
    gap = ["# c", ""] if case["gap"] else []
    lines = ["#language: qq-unknown"] + gap + ["# language: " + d, D["feature"][0] + ": f", " " + D["scenario"][0] + ": s", "  " + D["given"][-1] + "x"]
    text = "\n".join(lines) + "\n"
    stats.case(text, True, sample=case)
    r = gh.parse(text, "en" if d != "en" else "fr")
    want = [(1, 1, "(1:1): Language not supported: qq-unknown")]
    if r[0] == "ok" or r[1] != want:
        raise Violation(case, "unknown header, then a header for %s and a %s document: errors %r, expected exactly %r\n%s" % (d, d, "none (accepted)" if r[0] == "ok" else r[1][:3], want, text))


def unit_header(a):
    stats = Stats()
    if a["shard"] == 0:
        # every dialect code in other spellings (case, underscore, without the hyphen, region only): a code is known only as listed
        cases = []
        for d in sorted(DIALECTS):
            for v in sorted({d.lower(), d.upper(), d.swapcase(), d.title(), d.capitalize(), d.replace("-", "_"), d.replace("-", ""), d.split("-")[-1], d.split("-")[0], d + "-", d + "-" + d, d[:1], d + d[-1:]} | {"nb", "nn", "iw", "in", "zh", "mk", "sr", "hy", "jp", "cn", "ua", "cz", "dk", "gr"}):
                if v and v != d and v not in DIALECTS:
                    for i, pos in enumerate(("top", "after-comment")):
                        cases.append({"sub": "header", "header": ["#language: ", "# language:"][i] + v, "position": pos, "default": "en" if d != "en" else "fr", "reuse": i})
        sweep(stats, cases, check_header)
        sweep(stats, [{"sub": "after-unknown", "dialect": d, "gap": g} for d in sorted(DIALECTS) for g in (0, 1)], check_after_unknown)
    strat = st.binary(min_size=40, max_size=40).map(lambda b: g_header(Src(b)))
    hyp(stats, strat, check_header, a["n"], shard_seed(a["seed"], a["shard"], 5))
    return stats


def check_files(case, stats):
    a = open(MASTER_LANGUAGES, "rb").read()
    b = open(PACKAGE_LANGUAGES, "rb").read()
    stats.case("files", True, sample={"master_bytes": len(a), "package_bytes": len(b)})
    if a != b:
        raise Violation(case, "python/gherkin/gherkin-languages.json differs from the repository's master gherkin-languages.json")
    from gherkin.dialect import DIALECTS as LOADED
    if LOADED != DIALECTS:
        raise Violation(case, "the language table loaded by the package differs from the master table")


LOCALE_SCRIPT = r"""
import sys, json
sys.path.insert(0, sys.argv[1])
from gherkin.dialect import DIALECTS
from gherkin.parser import Parser
master = json.load(open(sys.argv[2], encoding="utf-8"))
assert DIALECTS == master, "language table loaded under this locale differs from the master table"
doc = Parser().parse("# language: fr\nFonctionnalit\u00e9: f\n Sc\u00e9nario: s\n  \u00c9tant donn\u00e9 que x\n")
assert doc["feature"]["keyword"] == "Fonctionnalit\u00e9" and doc["feature"]["children"][0]["scenario"]["steps"][0]["keywordType"] == "Context"
print("ok")
"""


def check_locale(case, stats):
    """the package loads its language table identically whatever the process locale / default encoding is"""
    import os
    import subprocess
    import sys
    from vlib.common import REPO, HarnessError
    stats.case(("locale", case["env"].get("LC_ALL")), True, sample=case)
    env = dict(os.environ, PYTHONDONTWRITEBYTECODE="1", **case["env"])
    r = subprocess.run([sys.executable] + case.get("flags", []) + ["-c", LOCALE_SCRIPT, os.path.join(REPO, "python"), MASTER_LANGUAGES], capture_output=True, text=True, env=env, timeout=120)
    if r.returncode != 0 or r.stdout.strip() != "ok":
        raise Violation(case, "in a process with %r %r the package does not load / use its language table as shipped: %s" % (case["env"], case.get("flags"), (r.stderr or r.stdout)[-500:]))


def check_table_after_use(case, stats):
    """every entry point that reads the language table (classic matcher, Markdown matcher, Dialect objects) leaves it as shipped"""
    from gherkin.token_matcher_markdown import GherkinInMarkdownTokenMatcher as MD
    from gherkin.dialect import Dialect
    stats.case("table-after-use", True, sample=case)
    for d in sorted(DIALECTS):
        D = DIALECTS[d]
        for M in (MD, gh.TokenMatcher):
            m = M(d)
            for line in ("* " + D["given"][-1] + "x\n", D["when"][-1] + "y\n", "# " + D["feature"][0] + ": f\n", D["scenario"][0] + ": s\n", "  | a |\n"):
                t = gh.Token(gh.GherkinLine(line, 1), {"line": 1})
                for meth in ("match_StepLine", "match_FeatureLine", "match_ScenarioLine", "match_TableRow"):
                    getattr(m, meth)(t)
        dd = Dialect.for_name(d)
        for attr in ("feature_keywords", "given_keywords", "when_keywords", "then_keywords", "and_keywords", "but_keywords"):
            getattr(dd, attr)
    prob = gh.language_table_problem()
    if prob:
        raise Violation(case, "the shared language table was modified by using the matchers: " + prob)
    # and the table still drives recognition as listed
    for d, cat, kw in (("en", "when", "When "), ("fr", "then", "Alors "), ("ht", "when", "Lè ")):
        check_kw({"sub": "kw", "dialect": d, "cat": cat, "kw": kw, "mode": "default", "layout": 0}, Stats())


def check_copied_matcher(case, stats):
    """a configured matcher that was copied (copy.copy, copy.deepcopy, pickle round trip - a matcher sent to a worker process, kept in a cache)
    recognises its dialect's keywords like the original, as default and after a header"""
    import copy
    import pickle
    d, how = case["dialect"], case["how"]
    D = DIALECTS[d]
    stats.case((d, how), True, sample=case)
    clone = {"copy": copy.copy, "deepcopy": copy.deepcopy, "pickle": gh.pickle_clone}[how]
    for header, base in ((False, d), (True, "en" if d != "en" else "fr")):
        m = clone(gh.TokenMatcher(base))
        for cat in STEP_CATS:
            for kw in D[cat]:
                text = ("# language: %s\n" % d if header else "") + "%s: f\n %s: s\n  %sx\n" % (D["feature"][-1], D["scenario"][-1], kw)
                r = gh.parse(text, matcher=m)
                want = expected_step(d, kw + "x")
                steps = r[1]["feature"]["children"][0]["scenario"]["steps"] if r[0] == "ok" else []
                if r[0] != "ok" or r[1]["feature"]["language"] != d or [(x["keyword"], x["keywordType"]) for x in steps] != [want]:
                    raise Violation(case, "a %s of TokenMatcher(%r) on a %s document%s: %r, expected one step %r" % (
                        how, base, d, " with header" if header else "", r[1][:2] if r[0] != "ok" else [(x["keyword"], x["keywordType"]) for x in steps], want))


def unit_files(a):
    stats = Stats()
    sweep(stats, [{"sub": "files"}], check_files)
    sweep(stats, [{"sub": "table-after-use"}], check_table_after_use)
    sweep(stats, [{"sub": "locale", "env": {"LC_ALL": "C", "LANG": "C", "PYTHONUTF8": "0", "PYTHONCOERCECLOCALE": "0"}},
                  {"sub": "locale", "env": {"LC_ALL": "C.UTF-8", "PYTHONUTF8": "1"}},
                  {"sub": "locale", "env": {"LC_ALL": "POSIX", "PYTHONUTF8": "0", "PYTHONCOERCECLOCALE": "0"}, "flags": ["-O"]}], check_locale)
    sweep(stats, [{"sub": "files"}], check_files)
    return stats


def replay(case, stats):
    return {"kw": check_kw, "foreign": check_foreign, "pair": check_pair, "nearmiss": check_nearmiss, "header": check_header, "files": check_files, "table-after-use": check_table_after_use, "locale": check_locale, "copied-matcher": check_copied_matcher, "after-unknown": check_after_unknown}[case["sub"]](case, stats)


def run(ctx):
    q = ctx.quick
    ns = 16
    ctx.units("language-table-files", unit_files, [{}])
    ctx.units("keywords-in-role", unit_positive, [{"shard": i, "nshards": ns} for i in range(ns)], procs=ns)
    ctx.units("foreign-keywords", unit_foreign, [{"shard": i, "nshards": ns, "sample": 0, "seed": ctx.seed} for i in range(ns)], procs=ns)
    ctx.units("adjacent-step-keyword-pairs", unit_pairs, [{"shard": i, "nshards": ns} for i in range(ns)], procs=ns)
    ctx.units("title-keyword-near-misses", unit_nearmiss, [{"shard": i, "nshards": ns} for i in range(ns)], procs=ns)
    ctx.units("header-spellings", unit_header, [{"n": 900 if q else 6000, "seed": ctx.seed, "shard": i} for i in range(8 if q else 16)], procs=16)
    nk = sum(len(DIALECTS[d][c]) for d in DIALECTS for c in TITLE_CATS + STEP_CATS)
    ctx.exhaustive = False
    ctx.extra["exhaustive_part"] = ("%d dialects x %d listed keywords x {configured default, language header} x %d layouts: complete; foreign keywords: %s" % (
        len(DIALECTS), nk, len(LAYOUTS), "complete"))
    ctx.rule = ("positive sweep: every listed keyword of every dialect in its role in a minimal carrier document, as matcher default and via header, 3 layouts; oracle from "
                "gherkin-languages.json only (first listed keyword by the stated rule, dialect in force, keyword type of the category, Unknown when listed in several). "
                "Negative sweep: every keyword that is listed only in other dialects and means nothing in this one, as first line (rejected at 1:1 with the start "
                "expectation) and under a scenario header (description text, no step). Headers: spellings from the header pattern's grammar and near misses x 6 positions, "
                "reuse of the matcher afterwards. Every case is non-trivial (distinct dialect/keyword/role/layout); header cases count when the pattern matches or nearly does.")
    ctx.assumptions += ["language header pattern as stated in the property: ^\\s*#\\s*language\\s*:\\s*([a-zA-Z\\-_]+)\\s*$"]
