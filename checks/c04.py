"""C04 - every reported location is the exact 1-based line and code-point column."""
from __future__ import annotations

from vlib import gh, model, noisy
from vlib.common import Stats, Violation, diff_text, hyp, shard_seed, sweep
from vlib.refparse import ref_parse
from vlib.refs import is_blank, lead_ws, split_units, trim


def loc_projection(x):
    """the tree of locations only (keys kept so that a diff names the element)"""
    if isinstance(x, dict):
        out = {}
        for k, v in x.items():
            if k == "location":
                out[k] = v
            elif isinstance(v, (dict, list)):
                p = loc_projection(v)
                if p not in ({}, []):
                    out[k] = p
        return out
    if isinstance(x, list):
        return [loc_projection(v) for v in x]
    return None


def source_lines(text):
    """physical lines: split at LF only, terminator (LF or CR LF) removed"""
    parts = text.split("\n")
    if parts and parts[-1] == "":
        parts.pop()
    return [p[:-1] if p.endswith("\r") else p for p in parts]


def slice_check(case, text, ast):
    """model-free: reading the source at each reported position gives back the element"""
    L = source_lines(text)
    n = [0]
    hard = [False]
    first_hard = {}   # line -> index of its first non-BMP character / tab / backslash (computed once per line: rows can have thousands of cells)

    def at(loc, what):
        line, col = loc.get("line"), loc.get("column")
        if not isinstance(line, int) or not isinstance(col, int) or line < 1 or col < 1 or line > len(L) or col > len(L[line - 1]) + 1:
            raise Violation(case, "%s has location %r outside the source (%d lines)" % (what, loc, len(L)))
        n[0] += 1
        src = L[line - 1]
        if col > 1 and not hard[0]:
            if line not in first_hard:
                first_hard[line] = next((k_ for k_, c in enumerate(src) if ord(c) > 0xFFFF or c == "\t" or c == "\\"), len(src))
            if first_hard[line] < col - 1:
                hard[0] = True
        return src, col - 1

    def keyword_node(node, what, colon=True):
        src, i = at(node["location"], what)
        kw = node["keyword"] + (":" if colon else "")
        if not src.startswith(kw, i):
            raise Violation(case, "%s: source at %r reads %r, not the keyword %r" % (what, node["location"], src[i:i + len(kw) + 3], kw))
        if src[:i].strip() != "":
            raise Violation(case, "%s at %r is not the first thing on its line: %r" % (what, node["location"], src[:i]))

    def tags(ts):
        for t in ts:
            src, i = at(t["location"], "tag")
            if src[i:i + 1] != "@" or not src[i + 1:].lstrip().startswith(t["name"][1:]):
                raise Violation(case, "tag %r: source at %r reads %r" % (t["name"], t["location"], src[i:i + len(t["name"]) + 2]))

    def row(r):
        src, i = at(r["location"], "table row")
        if src[i:i + 1] != "|" or src[:i].strip() != "":
            raise Violation(case, "table row at %r: source there reads %r" % (r["location"], src[i:i + 3]))
        row_units = split_units(src)                       # once per row (rows can have thousands of cells)
        unit_at = {off: k_ for k_, (_, off) in enumerate(row_units)}
        for c in r["cells"]:
            if c["location"]["line"] != r["location"]["line"]:
                raise Violation(case, "cell on another line than its row: %r" % (c,))
            src, j = at(c["location"], "cell")
            # everything between the previous unescaped pipe and the column is blank
            k = j
            while k > 0 and is_blank(src[k - 1]):
                k -= 1
            if k == 0 or src[k - 1] != "|":
                raise Violation(case, "cell %r at %r does not start right after a pipe and blanks: %r" % (c["value"], c["location"], src[:j + 1]))
            # unescape from the column up to the next unescaped pipe, trim -> the value
            if j in unit_at:
                units = (row_units[k_][0] for k_ in range(unit_at[j], len(row_units)))
            else:
                units = (u for u, _ in split_units(src[j:]))   # the column points into the middle of an escape pair: read from there
            buf = ""
            closed = False
            for u in units:
                if u == "|":
                    closed = True
                    break
                buf += {"\\n": "\n", "\\|": "|", "\\\\": "\\"}.get(u, u)
            end = len(buf)
            while end > 0 and is_blank(buf[end - 1]):
                end -= 1
            if not closed or buf[:end] != c["value"] or (c["value"] == "" and src[j:j + 1] != "|"):
                raise Violation(case, "cell at %r: raw text there gives %r, AST value is %r" % (c["location"], buf[:end], c["value"]))

    def steps(ss):
        for s in ss:
            keyword_node(s, "step", colon=False)
            if "dataTable" in s:
                if s["dataTable"]["location"] != s["dataTable"]["rows"][0]["location"]:
                    raise Violation(case, "data table location %r is not its first row's %r" % (s["dataTable"]["location"], s["dataTable"]["rows"][0]["location"]))
                for r in s["dataTable"]["rows"]:
                    row(r)
            if "docString" in s:
                d = s["docString"]
                src, i = at(d["location"], "doc string")
                if not src.startswith(d["delimiter"], i) or src[:i].strip() != "":
                    raise Violation(case, "doc string at %r: source there reads %r, delimiter is %r" % (d["location"], src[i:i + 4], d["delimiter"]))

    def scenario(sc):
        keyword_node(sc, "scenario")
        tags(sc["tags"])
        steps(sc["steps"])
        for ex in sc["examples"]:
            keyword_node(ex, "examples")
            tags(ex["tags"])
            for r in ([ex["tableHeader"]] if "tableHeader" in ex else []) + ex["tableBody"]:
                row(r)

    f = ast.get("feature")
    if f:
        keyword_node(f, "feature")
        tags(f["tags"])
        for ch in f["children"]:
            if "background" in ch:
                keyword_node(ch["background"], "background")
                steps(ch["background"]["steps"])
            elif "scenario" in ch:
                scenario(ch["scenario"])
            else:
                r = ch["rule"]
                keyword_node(r, "rule")
                tags(r["tags"])
                for c2 in r["children"]:
                    if "background" in c2:
                        keyword_node(c2["background"], "background")
                        steps(c2["background"]["steps"])
                    else:
                        scenario(c2["scenario"])
    for c in ast.get("comments", []):
        src, i = at(c["location"], "comment")
        if i != 0 or c["text"] != src:
            raise Violation(case, "comment at %r with text %r; the line is %r" % (c["location"], c["text"], src))
    return n[0], hard[0]


def check_model(case, stats):
    doc = case["doc"]
    r = model.render(doc)
    res = gh.parse(r.text, doc["default"])
    if res[0] != "ok":
        raise Violation(case, "well-formed document rejected: %r\n%s" % (res[1][:3], r.text))
    a, b = loc_projection(res[1]), loc_projection(r.ast)
    nloc, hard = slice_check(case, r.text, res[1])
    stats.case(r.text, hard, sample={"text": r.text}, labels=["crlf"] if doc["eol"] == "\r\n" else [])
    stats.notes["locations_checked"] = stats.notes.get("locations_checked", 0) + nloc
    if a != b:
        raise Violation(case, "locations differ from where the renderer put the elements, %s\n--- text:\n%s" % (diff_text(a, b, "parser", "rendered at"), r.text))
    # a TokenScanner object from which the caller has already read k leading blank lines: locations still name physical lines
    k = 1 + len(r.text) % 3
    shifted = "\n" * k + r.text
    if not gh.names_existing_path(shifted):
        whole = gh.parse(shifted, doc["default"])
        sc = gh.TokenScanner(shifted)
        for _ in range(k):
            sc.read()
        part = gh.parse(sc, doc["default"])
        if whole[0] == "ok" and (part[0] != "ok" or loc_projection(part[1]) != loc_projection(whole[1])):
            raise Violation(case, "after the caller read %d blank lines from the TokenScanner itself, locations are no longer physical lines: %s" % (
                k, diff_text(loc_projection(part[1]), loc_projection(whole[1]), "pre-read scanner", "whole text") if part[0] == "ok" else part[1][:2]))


def check_text(case, stats):
    """arbitrary text: slice check when accepted, error positions when rejected"""
    text, dflt = case["text"], case.get("default", "en")
    if gh.names_existing_path(text):
        stats.label("excluded_known_F1")
        return
    # (a string source is split at LF only: a lone CR is an ordinary - blank - character of its line, also at the start of a line;
    # a CR directly in front of the line terminator - "\r\r\n", "x\r" as last line - is terminator territory and stays out)
    if any(l.endswith("\r") for l in text.replace("\r\n", "\n").split("\n")):
        stats.label("CR-before-line-terminator-skipped")
        return
    real = gh.parse(text, dflt)
    if real[0] == "ok":
        nloc, hard = slice_check(case, text, real[1])
        stats.case(text, hard, sample={"text": text}, labels=["accepted", case.get("label", "-")])
        stats.notes["locations_checked"] = stats.notes.get("locations_checked", 0) + nloc
        return
    L = source_lines(text)
    ref = ref_parse(text, dflt)
    hard = False
    for line, col, msg in real[1]:
        if "unexpected end of file" in msg:
            if line != len(L) + 1 or col is not None:
                raise Violation(case, "end-of-file error located at (%r, %r), the document has %d lines" % (line, col, len(L)))
            continue
        if not (1 <= line <= len(L)) or not isinstance(col, int) or not (1 <= col <= len(L[line - 1]) + 1):
            raise Violation(case, "error %r located outside the source" % (msg,))
        src = L[line - 1]
        hard = hard or any(ord(c) > 0xFFFF or c == "\t" or 0xD800 <= ord(c) <= 0xDFFF for c in src[:col - 1])
        if "got '" in msg:
            if col - 1 != lead_ws(src) or not msg.endswith("got '" + trim(src) + "'"):
                raise Violation(case, "unexpected-line error %r: first non-blank character of the line is at column %d, line is %r" % (msg, lead_ws(src) + 1, src))
        elif "A tag may not contain whitespace" in msg:
            if src[col - 1:col] != "@":
                raise Violation(case, "tag error %r does not point at an '@': %r" % (msg, src[col - 1:col + 3]))
        elif "inconsistent cell count" in msg:
            if src[col - 1:col] != "|" or src[:col - 1].strip():
                raise Violation(case, "ragged-table error %r does not point at the row's leading pipe" % (msg,))
        elif "Language not supported" in msg:
            if src[col - 1:col] != "#" or src[:col - 1].strip():
                raise Violation(case, "language error %r does not point at the header's '#'" % (msg,))
    stats.case(text, hard, sample={"text": text, "errors": [e[2] for e in real[1][:2]]}, labels=["rejected", case.get("label", "-")])
    if [(l, c) for l, c, _ in real[1]] != [(l, c) for l, c, _ in ref.errors]:
        raise Violation(case, "error positions %r, reference parser puts them at %r\n%s" % (
            [(l, c) for l, c, _ in real[1]], [(l, c) for l, c, _ in ref.errors], text))


def unit_model(a):
    stats = Stats()
    hyp(stats, model.st_doc().map(lambda d: {"sub": "model", "doc": d}), check_model, a["n"], shard_seed(a["seed"], a["shard"], 4))
    return stats


def stray_cr(text):
    """some documents get carriage returns that are not part of a CR LF pair: LF CR line ends, a CR inside the indentation, before a cell"""
    if "\r" in text:
        return text   # documents written with CR LF stay as they are (a CR directly before CR LF is the line terminator's business, not a stray one)
    k = len(text) % 9
    if k == 0:
        return text.replace("\n", "\n\r")
    if k == 1:
        return text.replace("\n ", "\n\r ", 3)
    if k == 2:
        return text.replace("  ", " \r ", 2).replace("| ", "|\r ", 1)
    return text


def unit_noisy(a):
    stats = Stats()
    strat = noisy.st_noisy().map(lambda x: {"sub": "text", "text": stray_cr(x[0]), "default": x[1], "label": x[2]})
    hyp(stats, strat, check_text, a["n"], shard_seed(a["seed"], a["shard"], 44))
    return stats


def unit_corpus(a):
    stats = Stats()
    sweep(stats, [{"sub": "text", "text": t, "label": "corpus:" + n} for n, t in noisy.corpus_texts()], check_text)
    return stats


SURROGATE_UNITS = ["\ud83d\ude00", "\ud83d", "\ude00", "\ude00\ud83d", "\ud83d\ud83d\ude00", "\udbff\udfff", "\ud800\udc00", "\ud800\udc00\ud800\udc00", "a\udc00"]
SURROGATE_TEMPLATES = ["Feature: f\n @a%s @b @c\n Scenario: s\n  Given x\n", "Feature: f\n Scenario: s\n  Given x\n   | %s | second | third |\n   | a | b%s | c |\n",
                       "Feature: %s\n Scenario: s %s\n  Given x %s\n   | a |\n", "Feature: f\n @a%s b\n Scenario: s\n", "Feature: f\n Scenario: s\n  Given x\n   | %s | b |\n   | c |\n",
                       "Feature: f\n Scenario: s\n  Given x\n   \"\"\"%s\n   d%s\n   \"\"\"\n  And y\n", "@%s @t\nFeature: f\n # c %s\n Scenario Outline: o\n  Given <%s>\n  Examples:\n   | %s | b |\n   | 1 | 2 |\n",
                       "Feature: f\n %s unexpected\n"]


def check_cps(case, stats):
    """sources given as code points (strings holding surrogate code points do not survive a JSON round trip as they are)"""
    text = "".join(map(chr, case["cps"]))
    return check_text(dict(case, text=text), stats)


def unit_surrogates(a):
    """a str may hold surrogate code points (text decoded with surrogatepass / surrogateescape, data from UTF-16 sources): each is ONE column,
    also when a high one is followed by a low one"""
    stats = Stats()
    sweep(stats, ({"sub": "cps", "cps": [ord(c) for c in t.replace("%s", u)], "label": "surrogates"} for t in SURROGATE_TEMPLATES for u in SURROGATE_UNITS), check_cps)
    return stats


def replay(case, stats):
    return {"model": check_model, "text": check_text, "cps": check_cps}[case["sub"]](case, stats)


def run(ctx):
    q = ctx.quick
    ctx.units("corpus", unit_corpus, [{}])
    from . import magnitude
    magnitude.run_big(ctx, "c04", "check_text", "text")
    ctx.units("model-documents", unit_model, [{"n": 900 if q else 8000, "seed": ctx.seed, "shard": i} for i in range(8 if q else 16)], procs=16)
    ctx.units("noisy-documents", unit_noisy, [{"n": 900 if q else 8000, "seed": ctx.seed, "shard": i} for i in range(8 if q else 16)], procs=16)
    ctx.rule = ("(a) generated documents: the location tree of the AST equals the positions the renderer put the elements at; (b) any accepted document "
                "(generated, noisy, corpus): slicing the source (split at LF, code points) at each reported location gives back the keyword, tag, row pipe, "
                "raw cell text or delimiter, comments are whole lines at column 1; (c) rejected documents: each error points at the first non-blank character / "
                "the '@' / the row's pipe / the header's '#' / one line past the end, and positions equal the reference parser's. Non-trivial = some located "
                "element sits behind a tab, a non-BMP character or an escape on its line; distinct = distinct text.")
    ctx.assumptions += ["lines end at LF (CR LF accepted as terminator); column = 1 + number of code points before the element",
                        "documents with a lone CR are skipped in the slice check (counted)"]
