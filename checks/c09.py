"""C09 - example values replace <header> placeholders literally, everywhere they apply."""
from __future__ import annotations

import itertools

from hypothesis import strategies as st

from vlib.common import Stats, Violation, hyp, shard_seed, sweep

from . import pickles_common as pc

ALPHABET = ["a", ".", "(", "[", "\\", "$", "1", "<", ">", "|", "*", "A"]
META = set(".()[]\\$^*+?{}|<>") | {"\n"}
LOC = {"line": 1, "column": 1}


def literal(template, headers, values):
    for h, v in zip(headers, values):
        template = template.replace("<" + h + ">", v)
    return template


def build(case):
    """one feature: background with the templates (must stay untouched) + one outline using every slot"""
    hs, vs, ts = case["headers"], case["values"], case["templates"]
    n = [0]

    def gid():
        n[0] += 1
        return str(n[0] - 1)

    def step(text, table=None, doc=None, media=None):
        s = {"id": None, "location": LOC, "keyword": "Given ", "keywordType": "Context", "text": text}
        if table is not None:
            s["dataTable"] = {"location": LOC, "rows": [{"id": gid(), "location": LOC, "cells": [{"location": LOC, "value": c} for c in table]}]}
        if doc is not None:
            s["docString"] = {"location": LOC, "content": doc, "delimiter": '"""'}
            if media is not None:
                s["docString"]["mediaType"] = media
        s["id"] = gid()
        return s

    t0 = ts[0]
    bg_steps = [step(t, table=[t], doc=None) for t in ts[:2]] + [step(t0, doc=t0, media=t0)]
    bg = {"background": {"id": gid(), "location": LOC, "keyword": "Background", "name": t0, "description": "", "steps": bg_steps}}
    steps = [step(t) for t in ts] + [step("tbl", table=ts), step("doc", doc="\n".join(ts), media=t0), step("doc-no-media", doc=t0),
                                     step("media only", doc="plain content", media=t0), step("cell only", table=["plain", t0]),
                                     # a table row that mirrors the examples header: one placeholder per column, in header order (and reversed)
                                     step("mirror", table=["<%s>" % h for h in hs]), step("mirror reversed <%s>" % hs[-1], table=["<%s>" % h for h in reversed(hs)])]
    header = {"id": gid(), "location": LOC, "cells": [{"location": LOC, "value": h} for h in hs]}
    row = {"id": gid(), "location": LOC, "cells": [{"location": LOC, "value": v} for v in vs]}
    body = [row] + [{"id": gid(), "location": LOC, "cells": [{"location": LOC, "value": v} for v in r]} for r in case.get("more_rows", [])]
    ex = {"id": gid(), "tags": [], "location": LOC, "keyword": "Examples", "name": t0, "description": "", "tableHeader": header, "tableBody": body}
    exs = [ex]
    if case.get("second_block"):
        # a second examples block: other header names (reversed order / renamed), the very same row values
        hs2 = case["second_block"]
        header2 = {"id": gid(), "location": LOC, "cells": [{"location": LOC, "value": h} for h in hs2]}
        # ... or, with the columns listed in the other order, each column keeping its value (the same (header, value) pairs in another order)
        vs2 = list(reversed(vs)) if case.get("second_block_swapped_values") and len(vs) == 2 else vs
        row2 = {"id": gid(), "location": LOC, "cells": [{"location": LOC, "value": v} for v in vs2]}
        exs.append({"id": gid(), "tags": [], "location": LOC, "keyword": "Examples", "name": "", "description": "", "tableHeader": header2, "tableBody": [row2]})
    sc = {"scenario": {"id": gid(), "tags": [], "location": LOC, "keyword": "Scenario Outline", "name": " / ".join(ts), "description": "",
                       "steps": steps, "examples": exs}}
    doc = {"feature": {"tags": [], "location": LOC, "language": "en", "keyword": "Feature", "name": t0, "description": "",
                       "children": [bg, sc]}, "comments": [], "uri": "u"}
    return doc, n[0], len(bg_steps)


def check_interp(case, stats):
    hs, vs, ts = case["headers"], case["values"], case["templates"]
    doc, nid, nbg = build(case)
    nontrivial = any(set(x) & META for x in hs + vs) or len(hs) >= 2
    stats.case(case, nontrivial, sample=case, labels=["cols=%d" % len(hs)])
    pk = pc.real_compile(doc, nid)
    more = case.get("more_rows", [])
    if len(pk) != (2 if case.get("second_block") else 1) + len(more):
        raise Violation(case, "expected exactly one pickle per example row, got %d" % len(pk))
    for j, r in enumerate(more):
        pj = pk[1 + j]
        own_j = pj["steps"][nbg:]
        wantj = [literal(t, hs, r) for t in ts]
        gotj = [s_["text"] for s_ in own_j[:len(ts)]]
        cellsj = [c["value"] for c in own_j[len(ts)]["argument"]["dataTable"]["rows"][0]["cells"]]
        dsj = own_j[len(ts) + 1]["argument"]["docString"]
        if gotj != wantj or pj["name"] != literal(" / ".join(ts), hs, r) or cellsj != wantj or dsj != {"content": literal("\n".join(ts), hs, r), "mediaType": literal(ts[0], hs, r)}:
            raise Violation(case, "example row #%d (values %r, headers %r): name %r, step texts %r, cells %r, doc string %r; literal substitution gives texts/cells %r" % (
                j + 2, r, hs, pj["name"], gotj, cellsj, dsj, wantj))
    if case.get("second_block"):
        hs2 = case["second_block"]
        p2 = pk[1 + len(more)]
        vs_first = vs
        vs = list(reversed(vs)) if case.get("second_block_swapped_values") and len(vs) == 2 else vs
        want2 = [literal(t, hs2, vs) for t in ts]
        got2 = [s_["text"] for s_ in p2["steps"][nbg:nbg + len(ts)]]
        if got2 != want2 or p2["name"] != literal(" / ".join(ts), hs2, vs):
            raise Violation(case, "second examples block (headers %r, same values %r): step texts %r name %r, literal substitution gives %r / %r" % (
                hs2, vs, got2, p2["name"], want2, literal(" / ".join(ts), hs2, vs)))
        vs = vs_first
    p = pk[0]
    L = lambda t: literal(t, hs, vs)
    exp_name = L(" / ".join(ts))
    if p["name"] != exp_name:
        raise Violation(case, "pickle name %r, literal substitution gives %r" % (p["name"], exp_name))
    steps = p["steps"]
    bgsrc = doc["feature"]["children"][0]["background"]["steps"]
    for i in range(nbg):
        want = {"text": bgsrc[i]["text"]}
        if "dataTable" in bgsrc[i]:
            want["argument"] = {"dataTable": {"rows": [{"cells": [{"value": c["value"]} for c in r["cells"]]} for r in bgsrc[i]["dataTable"]["rows"]]}}
        if "docString" in bgsrc[i]:
            want["argument"] = {"docString": {k: bgsrc[i]["docString"][k] for k in ("content", "mediaType") if k in bgsrc[i]["docString"]}}
        got = {k: steps[i].get(k) for k in want}
        if got != want:
            raise Violation(case, "background step %d was changed by substitution: %r, source %r" % (i, got, want))
    own = steps[nbg:]
    for i, t in enumerate(ts):
        if own[i]["text"] != L(t):
            raise Violation(case, "step text for template %r = %r, literal substitution gives %r" % (t, own[i]["text"], L(t)))
    k = len(ts)
    cells = [c["value"] for c in own[k]["argument"]["dataTable"]["rows"][0]["cells"]]
    if cells != [L(t) for t in ts]:
        raise Violation(case, "data table cells %r, literal substitution gives %r" % (cells, [L(t) for t in ts]))
    ds = own[k + 1]["argument"]["docString"]
    want = {"content": L("\n".join(ts)), "mediaType": L(ts[0])}
    if ds != want:
        raise Violation(case, "doc string %r, literal substitution gives %r" % (ds, want))
    ds2 = own[k + 2]["argument"]["docString"]
    if ds2 != {"content": L(ts[0])}:
        raise Violation(case, "doc string without media type %r, expected %r" % (ds2, {"content": L(ts[0])}))
    ds3 = own[k + 3]["argument"]["docString"]
    if ds3 != {"content": "plain content", "mediaType": L(ts[0])}:
        raise Violation(case, "doc string whose only placeholder is in the media type: %r, expected %r" % (ds3, {"content": "plain content", "mediaType": L(ts[0])}))
    c4 = [c["value"] for c in own[k + 4]["argument"]["dataTable"]["rows"][0]["cells"]]
    if c4 != ["plain", L(ts[0])]:
        raise Violation(case, "data table of a step without placeholder in its text: %r, expected %r" % (c4, ["plain", L(ts[0])]))
    for off, order in ((5, list(hs)), (6, list(reversed(hs)))):
        cm = [c["value"] for c in own[k + off]["argument"]["dataTable"]["rows"][0]["cells"]]
        if cm != [L("<%s>" % h) for h in order]:
            raise Violation(case, "data table row made of the header's placeholders %r (values %r): cells %r, literal substitution gives %r" % (order, vs, cm, [L("<%s>" % h) for h in order]))


def check_collisions(case, stats):
    """ONE compiler for several examples tables whose header names differ but would coincide when glued together with some separator
    ('a, b' + 'c' versus 'a' + 'b, c'), in two documents and in two outlines of one document: each table is expanded with its own columns"""
    from vlib import gh
    sep = case["sep"]
    tables = [(["a" + sep + "b", "c"], ["1", "2"]), (["a", "b" + sep + "c"], ["3", "4"]), (["a", "b", "c"], ["5", "6", "7"]), (["a" + sep + "b" + sep + "c"], ["8"])]
    stats.case(("collisions", sep), True, sample=case)
    docs = []
    for hs, vs in tables:
        ts = ["<%s>" % h for h in hs] + ["<a> <b> <c>", "<a%sb> / <b%sc>" % (sep, sep)]
        docs.append((build({"headers": hs, "values": vs, "templates": ts}), hs, vs, ts))
    for order in (docs, docs[::-1], docs[1:] + docs[:1]):
        comp = gh.Compiler(gh.IdGenerator())
        for (doc, nid, nbg), hs, vs, ts in order:
            pk = comp.compile(__import__("json").loads(__import__("json").dumps(doc)))
            got = [s_["text"] for s_ in pk[0]["steps"][nbg:nbg + len(ts)]]
            want = [literal(t, hs, vs) for t in ts]
            if got != want:
                raise Violation(case, "one compiler, several tables: table with headers %r values %r gives step texts %r, literal substitution %r (earlier tables: %r)" % (
                    hs, vs, got, want, [o[1] for o in order]))


def unit_collisions(a):
    stats = Stats()
    sweep(stats, [{"sub": "collisions", "sep": sp} for sp in (", ", ",", "|", " ", "", "\t", ":", ";", "/", "\x1f", "\x00", "><", "> <", "-", "_", ".")], check_collisions)
    return stats


def templates_for(h):
    p = "<" + h + ">"
    out = [p, "x" + p + "y" + p, "<" + p + ">", "<other>", "plain " + h, h + "> <" + h, "<" + h.swapcase() + ">", "< " + h + " >", p + p, p + p + p, (p + " ") * 9, (p + "\n") * 20 + "end"]
    # a placeholder that overlaps itself (a proper suffix equal to a prefix, e.g. '<><>' or '<x><x>'): occurrences are taken left to right, never overlapping
    for k in range(1, len(p)):
        if p[k:] == p[:len(p) - k]:
            out += [p + p[len(p) - k:], p + p[len(p) - k:] * 2, "z" + p + p[len(p) - k:] + "z" + p]
    return out


def unit_alpha(a):
    stats = Stats()
    words = [""] + ALPHABET + ["".join(p) for p in itertools.product(ALPHABET, repeat=2)]

    def gen():
        n = 0
        for h in words:
            for v in words:
                n += 1
                if n % a["nshards"] != a["shard"]:
                    continue
                if a["sample"] and (n // a["nshards"]) % a["sample"] != a["seed"] % a["sample"]:
                    continue
                yield {"sub": "interp", "headers": [h], "values": [v], "templates": templates_for(h)}
    sweep(stats, gen(), check_interp)
    return stats


def unit_two_columns(a):
    """exhaustive interplay of two columns over a tiny alphabet: values that contain the other column's placeholder,
    duplicate headers, headers made of angle brackets"""
    stats = Stats()
    hs = ["a", "b", "", "<", ">", "<a>", "a>", "<b", "ab", "a><a", "><"]
    vs = ["", "x", "<a>", "<b>", "<", ">", "a", "<<a>>", "\\", "$1"]

    def gen():
        n = 0
        for h1 in hs:
            for h2 in hs:
                for v1 in vs:
                    for v2 in vs:
                        n += 1
                        if n % a["nshards"] != a["shard"]:
                            continue
                        more = []
                        if n % 4 == 0:
                            more = [["<" + h1 + ">", "<" + h2 + ">"], [v2, v1]]      # an identity row, then the values swapped
                        elif n % 4 == 1:
                            more = [[v1 + "|" + v2, "z"], [v1, v2 + "|z"]]             # rows that differ only in where a literal pipe falls
                        pad = ("p" * 300 + " ") if n % 5 == 0 else ""     # long texts (a doc string, a pasted paragraph) with the same placeholders
                        yield {"sub": "interp", "headers": [h1, h2], "values": [v1, v2], "more_rows": more, "second_block": [h2, h1] if n % 3 == 0 else ([h1 + "q", h2] if n % 3 == 1 else None),
                               "second_block_swapped_values": n % 2 == 0, "pad": pad,
                               "templates": [pad + t for t in ["<%s>" % h1, "<%s> <%s>" % (h2, h1), "<<%s>>" % h2, "x", "<%s><%s" % (h1, h2), "<%s><%s><%s>" % (h1, h1, h1), "<%s><%s><%s><%s>" % (h1, h2, h1, h2), "<<%s>%s>" % (h1, h2), "<%s<%s>>" % (h1, h2)]]}
    sweep(stats, gen(), check_interp)
    # placeholders that only FORM when an earlier column is filled in; a header holding a line feed (written \n in the table) next to texts that
    # end / begin with its halves
    sweep(stats, [{"sub": "interp", "headers": ["kind", "price-book"], "values": ["book", "42"], "templates": ["<price-<kind>>", "<kind>", "x<price-<kind>>y <price-book>", "<<kind>>", "<price-<kind>"]},
                  {"sub": "interp", "headers": ["a", "ab"], "values": ["b", "1"], "templates": ["<a<a>>", "<<a>b>", "<ab>", "<a><a<a>>"]},
                  {"sub": "interp", "headers": ["g\nn", "z"], "values": ["V", "W"], "templates": ["a <g", "n> b", "<g\nn>", "<z>", "<g", "n>"]},
                  {"sub": "interp", "headers": ["g\nn", "z"], "values": ["V", "W"], "templates": ["a <g", "n> b", "<z>", "x <g", "n>"]},
                  {"sub": "interp", "headers": ["g / n"], "values": ["V"], "templates": ["a <g", "n> b", "c"]},
                  {"sub": "interp", "headers": ["g\tn", "g n", "g|n"], "values": ["1", "2", "3"], "templates": ["<g", "n>", "<g", "n>"]},
                  {"sub": "interp", "headers": ["g", "n"], "values": ["V\nW", "<g"], "templates": ["<n>", "<g>", "x <n", "g> y"]},
                  {"sub": "interp", "headers": ["h"], "values": ["v"], "templates": ["<h", "h>", "<h>", "h", ">", "<"]}], check_interp)
    return stats


TXT = st.one_of(st.sampled_from(ALPHABET + ["a", "b", "<a>", "<b>", "\\1", "\\g<0>", "$1", "\n", " ", "é", "\U0001F600", "\\"]),
                st.characters(blacklist_categories=["Cs"]))
st_word = st.lists(TXT, max_size=4).map("".join)


@st.composite
def st_interp(draw):
    n = draw(st.integers(1, 3))
    hs = [draw(st.one_of(st.sampled_from(["a", "b", "a.b", "a(", "h"]), st_word)) for _ in range(n)]
    if n > 1 and draw(st.integers(0, 4)) == 0:
        hs[1] = hs[0]
    vs = []
    for i in range(n):
        v = draw(st_word)
        if draw(st.integers(0, 3)) == 0:
            v += "<" + draw(st.sampled_from(hs)) + ">"
        vs.append(v)
    ts = []
    for _ in range(draw(st.integers(1, 4))):
        parts = draw(st.lists(st.one_of(st_word, st.sampled_from(hs).map(lambda h: "<" + h + ">"), st.sampled_from(["<x>", "<", ">", "<>"])), max_size=5))
        ts.append("".join(parts))
    second = None
    if draw(st.integers(0, 2)) == 0:
        second = list(reversed(hs)) if draw(st.booleans()) else [h + "z" for h in hs]
    more = []
    for _ in range(draw(st.integers(0, 2))):
        k = draw(st.integers(0, 3))
        if k == 0:
            more.append(["<" + h + ">" for h in hs])
        elif k == 1:
            more.append(list(reversed(vs)))
        else:
            more.append([draw(st_word) for _ in hs])
    hs = [h.upper() if draw(st.integers(0, 9)) == 0 else h for h in hs]
    if draw(st.integers(0, 5)) == 0:
        # a header and a would-be placeholder that are canonically equivalent but not equal (NFC vs NFD)
        import unicodedata
        hs[0] = draw(st.sampled_from(["caf\u00e9", "\u00c5", "\u00f1o", "\u1e9b\u0323"]))
        ts = ts + ["<" + unicodedata.normalize("NFD", hs[0]) + ">", "<" + unicodedata.normalize("NFKC", hs[0]) + "> <" + hs[0] + ">"]
    return {"sub": "interp", "headers": hs, "values": vs, "templates": ts + ["<" + hs[0].swapcase() + ">", "<" + hs[0].replace("k", "\u212a") + ">"], "second_block": second, "more_rows": more}


def unit_hyp(a):
    stats = Stats()
    hyp(stats, st_interp(), check_interp, a["n"], shard_seed(a["seed"], a["shard"], 9))
    return stats


def unit_reuse(a):
    from vlib.astgen import st_ast
    from .textdocs_impl import proj_c09
    return pc.unit_reuse(a, st_ast(), proj_c09, "C09 projection of the pickles", 69)


def unit_modes(a):
    from .textdocs_impl import proj_c09
    return pc.unit_modes(proj_c09, "C09 projection of the pickles")


def replay(case, stats):
    if case["sub"] == "collisions":
        return check_collisions(case, stats)
    if case["sub"] == "modes":
        from .textdocs_impl import proj_c09
        return pc.check_modes(case, stats, proj_c09, "C09 projection of the pickles")
    if case["sub"] == "reuse":
        from .textdocs_impl import proj_c09
        return pc.check_reuse(case, stats, proj_c09, "C09 projection of the pickles")
    if case["sub"] in ("text", "rawtext"):
        from . import textdocs
        return textdocs.check_text(case, stats, "C09")
    return check_interp(case, stats)


def run(ctx):
    q = ctx.quick
    ns = 16
    ctx.units("alphabet-exhaustive", unit_alpha, [{"shard": i, "nshards": ns, "sample": 0, "seed": ctx.seed} for i in range(ns)], procs=ns)
    ctx.units("two-columns-exhaustive", unit_two_columns, [{"shard": i, "nshards": ns} for i in range(ns)], procs=ns)
    ctx.units("unicode-hypothesis", unit_hyp, [{"n": 1050 if q else 8000, "seed": ctx.seed, "shard": i} for i in range(8 if q else 16)], procs=16)
    ctx.units("header-name-collisions-one-compiler", unit_collisions, [{}])
    ctx.units("interpreter-modes", unit_modes, [{}])
    ctx.units("compiler-reuse", unit_reuse, [{"n": 450 if q else 4000, "seed": ctx.seed, "shard": i} for i in range(8 if q else 16)], procs=16)
    from . import textdocs
    textdocs.run_text(ctx, "C09")
    ctx.exhaustive = False
    ctx.extra["exhaustive_part"] = ("headers x values over all words of length <=2 of the alphabet %r (133 x 133), 6 templates each, all slots: "
                                   "%s" % ("".join(ALPHABET), "complete"))
    ctx.rule = ("one-outline ASTs whose name, step texts, table cells, doc-string content and media type are templates; headers/values "
                "enumerated over an adversarial alphabet and drawn from Unicode (1..3 columns, duplicate headers, values containing "
                "another column's placeholder); oracle = sequential literal str.replace per column, background steps untouched; "
                "non-trivial = header or value contains a regex/template metacharacter, or >=2 columns; distinct = distinct (headers, values, templates).")
    ctx.assumptions += ["literal substitution = Python str.replace applied column by column in header order"]
