"""Shared machinery of the pickle properties C06-C10: run the real compiler and the reference on a case."""
from __future__ import annotations

import copy
import glob
import json
import os

from vlib import gh
from vlib.common import REPO, HarnessError, Stats, Violation
from vlib.refcompile import ref_compile


def real_compile(doc, next_id):
    g = gh.IdGenerator()
    for _ in range(next_id):
        g.get_next_id()
    return gh.Compiler(g).compile(copy.deepcopy(doc))


def max_id(x, acc=-1):
    if isinstance(x, dict):
        for k, v in x.items():
            if k == "id":
                acc = max(acc, int(v))
            else:
                acc = max_id(v, acc)
    elif isinstance(x, list):
        for i in x:
            acc = max_id(i, acc)
    return acc


def golden_docs():
    """[(name, doc-with-uri, golden pickles)] from the acceptance corpus (plain .feature files only)"""
    out = []
    for f in sorted(glob.glob(os.path.join(REPO, "testdata", "good", "*.feature"))):
        try:
            ast = [json.loads(l) for l in open(f + ".ast.ndjson", encoding="utf8") if l.strip()]
            pk = [json.loads(l)["pickle"] for l in open(f + ".pickles.ndjson", encoding="utf8") if l.strip()]
        except FileNotFoundError:
            continue
        doc = ast[0]["gherkinDocument"]
        out.append((os.path.basename(f), doc, pk))
    return out


_calibrated = False


def calibrate():
    """the reference compiler alone must reproduce every golden pickle file (else exit 2: my model is wrong)"""
    global _calibrated
    if _calibrated:
        return
    n = 0
    for name, doc, pk in golden_docs():
        exp = ref_compile(doc, max_id(doc) + 1)
        if exp != pk:
            raise HarnessError("reference compiler does not reproduce golden pickles of %s" % name)
        n += 1
    if n < 20:
        raise HarnessError("acceptance corpus not found (%d golden documents)" % n)
    _calibrated = True


def compare(case, real, ref, proj, what):
    if len(real) != len(ref):
        raise Violation(case, "%s: compiler produced %d pickles, expected %d" % (what, len(real), len(ref)))
    a, b = proj(real), proj(ref)
    if a != b:
        for i, (x, y) in enumerate(zip(a, b)):
            if x != y:
                raise Violation(case, "%s: pickle #%d differs: got %s expected %s" % (
                    what, i, json.dumps(x, ensure_ascii=True)[:400], json.dumps(y, ensure_ascii=True)[:400]))


def unit_golden(proj, what):
    """real compiler on golden ASTs versus golden pickles (projection of the property)"""
    stats = Stats()
    for name, doc, pk in golden_docs():
        case = {"sub": "golden", "file": name}
        try:
            real = real_compile(doc, max_id(doc) + 1)
            stats.case(name, len(pk) >= 2, sample=case)
            compare(case, real, pk, proj, what + " (golden %s)" % name)
        except Violation as v:
            stats.fail(v.case, v.message)
            break
    return stats


def replay_golden(case, proj, what):
    for name, doc, pk in golden_docs():
        if name == case["file"]:
            compare(case, real_compile(doc, max_id(doc) + 1), pk, proj, what)
