"""Shared machinery of the pickle properties C06-C10: run the real compiler and the reference on a case."""
from __future__ import annotations

import copy
import glob
import json
import os

from vlib import gh
from vlib.common import REPO, HarnessError, Stats, Violation
from vlib.refcompile import ref_compile


def real_compile(doc, next_id):
    g = gh.IdGenerator()
    for _ in range(next_id):
        g.get_next_id()
    # the document goes through a JSON round trip first (as it does when it travels as a message): equal content, but no
    # string / list object is shared with anything the library may hold on to
    return gh.Compiler(g).compile(json.loads(json.dumps(doc)))


def max_id(x, acc=-1):
    if isinstance(x, dict):
        for k, v in x.items():
            if k == "id":
                acc = max(acc, int(v))
            else:
                acc = max_id(v, acc)
    elif isinstance(x, list):
        for i in x:
            acc = max_id(i, acc)
    return acc


def golden_docs():
    """[(name, doc-with-uri, golden pickles)] from the acceptance corpus (plain .feature files only)"""
    out = []
    for f in sorted(glob.glob(os.path.join(REPO, "testdata", "good", "*.feature"))):
        try:
            ast = [json.loads(l) for l in open(f + ".ast.ndjson", encoding="utf8") if l.strip()]
            pk = [json.loads(l)["pickle"] for l in open(f + ".pickles.ndjson", encoding="utf8") if l.strip()]
        except FileNotFoundError:
            continue
        doc = ast[0]["gherkinDocument"]
        out.append((os.path.basename(f), doc, pk))
    return out


_calibrated = False


def calibrate():
    """the reference compiler alone must reproduce every golden pickle file (else exit 2: my model is wrong)"""
    global _calibrated
    if _calibrated:
        return
    n = 0
    for name, doc, pk in golden_docs():
        exp = ref_compile(doc, max_id(doc) + 1)
        if exp != pk:
            raise HarnessError("reference compiler does not reproduce golden pickles of %s" % name)
        n += 1
    if n < 20:
        raise HarnessError("acceptance corpus not found (%d golden documents)" % n)
    _calibrated = True


PICKLE_KEYS = {"astNodeIds", "id", "tags", "name", "language", "steps", "uri"}
STEP_KEYS = {"astNodeIds", "id", "type", "text"}


def shape(case, real, what):
    """whatever the projection under test: a pickle is a pickle (exactly the message's fields, nothing null)"""
    for i, p in enumerate(real):
        if not isinstance(p, dict) or set(p) != PICKLE_KEYS:
            raise Violation(case, "%s: pickle #%d has fields %r, a pickle has exactly %r" % (what, i, sorted(p) if isinstance(p, dict) else p, sorted(PICKLE_KEYS)))
        for j, s_ in enumerate(p["steps"]):
            if not isinstance(s_, dict) or not (STEP_KEYS <= set(s_) <= STEP_KEYS | {"argument"}) or any(v is None for v in s_.values()):
                raise Violation(case, "%s: step #%d of pickle #%d has fields %r / null values: %r" % (what, j, i, sorted(s_) if isinstance(s_, dict) else s_, s_))
        if any(v is None for v in p.values()):
            raise Violation(case, "%s: pickle #%d carries a null field: %r" % (what, i, {k: v for k, v in p.items() if v is None}))


def compare(case, real, ref, proj, what):
    shape(case, real, what)
    if len(real) != len(ref):
        raise Violation(case, "%s: compiler produced %d pickles, expected %d" % (what, len(real), len(ref)))
    a, b = proj(real), proj(ref)
    if a != b:
        for i, (x, y) in enumerate(zip(a, b)):
            if x != y:
                raise Violation(case, "%s: pickle #%d differs: got %s expected %s" % (
                    what, i, json.dumps(x, ensure_ascii=True)[:400], json.dumps(y, ensure_ascii=True)[:400]))


def unit_golden(proj, what):
    """real compiler on golden ASTs versus golden pickles (projection of the property)"""
    stats = Stats()
    for name, doc, pk in golden_docs():
        case = {"sub": "golden", "file": name}
        try:
            real = real_compile(doc, max_id(doc) + 1)
            stats.case(name, len(pk) >= 2, sample=case)
            compare(case, real, pk, proj, what + " (golden %s)" % name)
        except Violation as v:
            stats.fail(v.case, v.message)
            break
    return stats


def replay_golden(case, proj, what):
    for name, doc, pk in golden_docs():
        if name == case["file"]:
            compare(case, real_compile(doc, max_id(doc) + 1), pk, proj, what)


MODE_SCRIPT = r"""
import json, sys
sys.path.insert(0, sys.argv[1]); sys.path.insert(0, sys.argv[2])
from vlib import gh
out = []
for text in json.load(sys.stdin):
    r = gh.parse_and_compile(text, uri="u.feature")
    out.append(r[2] if r[0] == "ok" else None)
print(json.dumps(out))
"""

MODE_TEXTS = ["Feature: f\n Scenario Outline: o <n>\n  Given <n>\n  Examples:\n   | n | n |\n   | 1 | 2 |\n", "@a @a\nFeature: f\n @a\n Scenario: s\n  Given x\n  Given x\n",
              "Feature: f\n Scenario: same\n Scenario: same\n", "Feature: f\n Background:\n Scenario: s\n", "Feature: f\n Scenario Outline: o\n  Given <missing>\n  Examples:\n   | a |\n   | 1 |\n",
              "Feature: f\n Scenario Outline: o\n  Given x\n  Examples:\n   | unused |\n   | 1 |\n", "Feature: f\n Rule: empty\n Rule: empty\n", "Feature:\n Scenario:\n  Given \n",
              "Feature: f\n Background:\n  Given b\n Scenario: s\n Scenario Outline: o\n  And <a>\n  Examples:\n  Examples: e\n   | a |\n", "Feature: f\n @t @t\n Scenario Outline: o\n  * <a><a>\n  @t\n  Examples:\n   | a |\n   | <a> |\n"]


def check_modes(case, stats, proj, what):
    """the pickles do not depend on how the interpreter was started: assertions / docstrings stripped, C locale"""
    import subprocess
    import sys
    from vlib import noisy
    from vlib.common import VERIF
    texts = [t for n, t in noisy.corpus_texts() if "/good/" in n or "good" in n][:60] + MODE_TEXTS
    texts = [t for t in texts if not gh.names_existing_path(t)]
    here = []
    for t in texts:
        r = gh.parse_and_compile(t, uri="u.feature")
        here.append(json.loads(json.dumps(r[2])) if r[0] == "ok" else None)
    stats.case(("modes", case["name"]), True, sample={"name": case["name"], "documents": len(texts)})
    r = subprocess.run([sys.executable] + case["flags"] + ["-X", "utf8", "-c", MODE_SCRIPT, os.path.join(REPO, "python"), VERIF], input=json.dumps(texts), capture_output=True, text=True, timeout=600,
                       env=dict(os.environ, PYTHONDONTWRITEBYTECODE="1", **case.get("env", {})))
    if r.returncode != 0:
        raise Violation(case, "%s: a fresh interpreter started with %r %r does not get through parse + compile of %d ordinary documents: %s" % (what, case["flags"], case.get("env"), len(texts), r.stderr[-600:]))
    there = json.loads(r.stdout)
    if len(there) != len(here):
        raise Violation(case, "%s: %d of %d documents reported" % (what, len(there), len(here)))
    for t, a, b in zip(texts, here, there):
        if (a is None) != (b is None) or (a is not None and proj(a) != proj(b)):
            raise Violation(dict(case, text=t), "%s: pickles differ in an interpreter started with %r %r\n%s" % (what, case["flags"], case.get("env"), t))


def unit_modes(proj, what):
    from vlib.common import sweep
    stats = Stats()
    sweep(stats, [{"sub": "modes", "name": "-OO", "flags": ["-OO"]},
                  {"sub": "modes", "name": "c-locale", "flags": [], "env": {"LC_ALL": "C", "LANG": "C"}}], lambda c, s: check_modes(c, s, proj, what))
    return stats


# ------------------------------------------------------------------ one Compiler for several documents whose ids coincide
ROT = {"Context": "Action", "Action": "Outcome", "Outcome": "Context", "Conjunction": "Conjunction", "Unknown": "Unknown"}


def variant(doc):
    """a document of the same shape and the same ids but different content everywhere (tags, headers, values, texts,
    arguments, keyword types) - what a second feature file parsed by a fresh parser looks like to a reused compiler"""
    return mutate_in_place(copy.deepcopy(doc))


def mutate_in_place(d):
    """the same edits applied to the very objects of `d` (data-driven templating: edit the AST, compile again)"""
    f = d.get("feature")
    if not f:
        return d
    f["language"] = "fr" if f["language"] != "fr" else "en"
    d["uri"] = "other/" + d.get("uri", "")

    def tags(ts):
        for t in ts:
            t["name"] = t["name"] + "_v"

    def steps(ss, headers):
        for s in ss:
            s["text"] = rename(s["text"], headers) + " v"
            s["keywordType"] = ROT[s["keywordType"]]
            if "dataTable" in s:
                for r in s["dataTable"]["rows"]:
                    for c in r["cells"]:
                        c["value"] = rename(c["value"], headers) + "v"
            if "docString" in s:
                s["docString"]["content"] = rename(s["docString"]["content"], headers) + "\nv"
                if "mediaType" in s["docString"]:
                    s["docString"]["mediaType"] = rename(s["docString"]["mediaType"], headers) + "v"

    def rename(text, headers):
        for h in headers:
            text = text.replace("<" + h + ">", "<" + h + "2>")
        return text

    def scenario(sc):
        headers = []
        for ex in sc["examples"]:
            if "tableHeader" in ex:
                for c in ex["tableHeader"]["cells"]:
                    if c["value"] not in headers:
                        headers.append(c["value"])
        sc["name"] = rename(sc["name"], headers) + " v"
        tags(sc["tags"])
        steps(sc["steps"], headers)
        for ex in sc["examples"]:
            tags(ex["tags"])
            if "tableHeader" in ex:
                for c in ex["tableHeader"]["cells"]:
                    c["value"] = c["value"] + "2"
            for r in ex["tableBody"]:
                for c in r["cells"]:
                    c["value"] = c["value"] + "w"

    tags(f["tags"])
    for ch in f["children"]:
        if "background" in ch:
            steps(ch["background"]["steps"], [])
        elif "scenario" in ch:
            scenario(ch["scenario"])
        else:
            tags(ch["rule"]["tags"])
            for c2 in ch["rule"]["children"]:
                if "background" in c2:
                    steps(c2["background"]["steps"], [])
                else:
                    scenario(c2["scenario"])
    return d


def presentations(doc):
    """the same document content presented differently (what other producers / a JSON round trip with sorted keys hand over)"""
    def rev(x):
        if isinstance(x, dict):
            return {k: rev(x[k]) for k in reversed(list(x))}
        if isinstance(x, list):
            return [rev(v) for v in x]
        return x
    memo = {}

    def intern_(x):
        # equal parts are ONE shared object (locations, equal cells, equal strings)
        if isinstance(x, dict):
            x = {k: intern_(v) for k, v in x.items()}
        elif isinstance(x, list):
            x = [intern_(v) for v in x]
        return memo.setdefault(json.dumps(x, sort_keys=True), x)
    import collections
    return [("keys sorted", json.loads(json.dumps(doc, sort_keys=True))), ("keys in reverse order", rev(json.loads(json.dumps(doc)))),
            ("equal parts being one shared object", intern_(json.loads(json.dumps(doc)))),
            ("OrderedDict objects", json.loads(json.dumps(doc), object_pairs_hook=collections.OrderedDict))]


TUPLE_KINDS = ["feature.children", "rule.children", "background.steps", "scenario.steps", "tags", "examples", "tableBody", "cells", "rows"]


def tupled(x, kind, parent="", key=""):
    """the same document with ONE kind of list being a tuple (frozen / constant parts of templated ASTs)"""
    if isinstance(x, dict):
        return {k: tupled(v, kind, key, k) for k, v in x.items()}
    if isinstance(x, list):
        y = [tupled(v, kind, parent, key) for v in x]
        return tuple(y) if kind in (key, parent + "." + key) else y
    return x


def check_presentations(case, doc, what):
    import collections
    plain = gh.Compiler(gh.IdGenerator()).compile(json.loads(json.dumps(doc)))

    def hook(d):
        x = collections.defaultdict(dict)
        x.update(d)
        return x
    # (presentations outside the typed contract - tuples for lists, auto-vivifying dict subclasses - were tried for one round and removed
    # again: a compiler that handles them differently still satisfies the properties on every document of the stated shape)
    more = []
    for label, pres, may_refuse in [(l, p_, False) for l, p_ in presentations(doc)] + more:
        snap = json.dumps(pres)
        try:
            got = gh.Compiler(gh.IdGenerator()).compile(pres)
        except (TypeError, AttributeError):
            if not may_refuse:
                raise
            continue  # a presentation the compiler refuses loudly is outside the property; a silently different result is not
        if got != plain:
            for i, (x, y) in enumerate(zip(got, plain)):
                if x != y:
                    raise Violation(case, "%s: the same document with %s compiles differently; pickle #%d is %s, plain %s" % (
                        what, label, i, json.dumps(x, ensure_ascii=True)[:300], json.dumps(y, ensure_ascii=True)[:300]))
            raise Violation(case, "%s: the same document with %s compiles to %d pickles, plain %d" % (what, label, len(got), len(plain)))
        if json.dumps(pres) != snap:
            raise Violation(case, "%s: compile modified the document it was given (%s)" % (what, label))


def scribble(x):
    """edits every dict and list inside x in place (what a consumer that post-processes ONE pickle may do)"""
    if isinstance(x, dict):
        for k in list(x):
            scribble(x[k])
            if isinstance(x[k], str):
                x[k] = x[k] + "~edited"
        x["edited-by-consumer"] = True
    elif isinstance(x, list):
        for v in x:
            scribble(v)
        x.append("edited-by-consumer")


def check_result_isolation(case, doc, what):
    """results handed out belong to the caller: after it has edited them in place (every dict, every list), the SAME compiler still compiles
    the same content to the same pickles.  (Whether two returned pickles, or a pickle and the document, share sub-objects is not examined: every
    value is right when it is returned, and the properties say nothing about object identity.)"""
    c = gh.Compiler(gh.IdGenerator())
    pk = c.compile(json.loads(json.dumps(doc)))
    for p in pk:
        scribble(p)
    again = c.compile(json.loads(json.dumps(doc)))
    fresh = gh.Compiler(gh.IdGenerator()).compile(json.loads(json.dumps(doc)))
    if _strip_ids(again) != _strip_ids(fresh):
        raise Violation(case, "%s: after the consumer edited returned pickles in place, compiling the same content again with the same compiler differs from a fresh compile: %s" % (
            what, _first_change(_strip_ids(fresh), _strip_ids(again))))


def _strip_ids(x):
    if isinstance(x, dict):
        return {k: _strip_ids(v) for k, v in x.items() if k != "id"}
    if isinstance(x, list):
        return [_strip_ids(v) for v in x]
    return x


def _first_change(a, b):
    from vlib.common import diff_text
    return diff_text(b, a, "now", "before")


def check_reuse(case, stats, proj, what):
    """compile doc, then its same-shaped variant, with ONE compiler: the second result must equal a fresh compiler's"""
    doc, nid = case["doc"], case["next_id"]
    other = variant(doc)
    ref = ref_compile(other, 0)
    stats.case(case, len(ref) >= 1 and any(p["tags"] or p["steps"] for p in ref), sample=case, labels=["reuse"])
    g = gh.IdGenerator()
    c = gh.Compiler(g)
    first = c.compile(copy.deepcopy(doc))
    base = len([1 for p in first for _ in [p] + p["steps"]])
    second = c.compile(copy.deepcopy(other))
    fresh = gh.Compiler(gh.IdGenerator()).compile(copy.deepcopy(other))
    compare(case, second, fresh, proj, what + " (second document through a reused compiler vs a fresh compiler)")
    compare(case, fresh, ref, proj, what + " (variant document)")
    # and once more the first document: nothing of the second may stick either
    third = c.compile(copy.deepcopy(doc))
    compare(case, third, first, proj, what + " (first document compiled again by the same compiler)")
    # documents without scenarios, compiled by the used compiler and by a new one, give no pickles
    empty = {"comments": [], "uri": "e"}
    e1 = c.compile(dict(empty))
    e2 = gh.Compiler().compile({"feature": dict(doc["feature"], children=[]), "comments": [], "uri": "e"} if doc.get("feature") else dict(empty))
    e3 = c.compile(dict(empty))
    if e1 != [] or e2 != [] or e3 != []:
        raise Violation(case, "%s: compiling a document without scenarios returns %r / %r / %r" % (what, e1, e2, e3))
    # an aborted compile (a malformed document makes it raise part-way) must leave nothing behind either
    if doc.get("feature") and doc["feature"]["children"]:
        broken = json.loads(json.dumps(doc))
        broken.pop("uri", None)
        try:
            c.compile(broken)
        except Exception:
            pass
        fourth = c.compile(copy.deepcopy(other))
        compare(case, fourth, fresh, proj, what + " (after a compile that raised on a malformed document)")
        fifth = gh.Compiler(gh.IdGenerator()).compile(copy.deepcopy(other))
        compare(case, fifth, fresh, proj, what + " (a brand-new compiler after another compiler raised on a malformed document)")
    check_presentations(case, doc, what)
    # a compile interrupted from outside (Ctrl-C, a test time-out: a BaseException surfacing inside an id request) leaves nothing behind either
    if doc.get("feature") and doc["feature"]["children"]:
        class Interrupting(gh.IdGenerator):
            def __init__(self, at):
                super().__init__()
                self.at, self.n = at, 0

            def get_next_id(self):
                self.n += 1
                if self.n == self.at:
                    raise KeyboardInterrupt()
                return super().get_next_id()
        total = len([1 for p in first for _ in [p] + p.get("steps", [])]) if first and isinstance(first[0], dict) and "steps" in first[0] else 0
        for at in sorted({1, 2, max(1, total // 2), max(1, total - 1)}):
            g3 = Interrupting(at)
            c3 = gh.Compiler(g3)
            try:
                c3.compile(copy.deepcopy(doc))
            except KeyboardInterrupt:
                pass
            g3.at = -1
            sixth = c3.compile(copy.deepcopy(other))
            compare(case, sixth, fresh, proj, what + " (after a compile of another document that was interrupted at id request #%d)" % at)
    # the caller edits the document in place and compiles the same objects again with the same compiler
    d2 = json.loads(json.dumps(doc))
    c2 = gh.Compiler(gh.IdGenerator())
    c2.compile(d2)
    mutate_in_place(d2)
    again = c2.compile(d2)
    want = gh.Compiler(gh.IdGenerator()).compile(json.loads(json.dumps(d2)))
    compare(case, again, want, proj, what + " (document edited in place and compiled again by the same compiler)")


def unit_reuse(a, strat, proj, what, salt):
    from vlib.common import hyp, shard_seed
    stats = Stats()
    hyp(stats, strat.map(lambda c: dict(c, sub="reuse")), lambda c, s: check_reuse(c, s, proj, what), a["n"], shard_seed(a["seed"], a["shard"], salt))
    return stats
