"""C19 - the Markdown matcher recognises Gherkin lines as MARKDOWN_WITH_GHERKIN.md specifies (line level)."""
from __future__ import annotations

import re

from hypothesis import strategies as st

from vlib import gh
from vlib.common import Stats, Violation, hyp, shard_seed, sweep
from vlib.model import Src
from vlib.refs import DIALECTS, STEP_CATS, TITLE_CATS, ROLE_OF_CAT, step_keywords

from gherkin.token_matcher_markdown import GherkinInMarkdownTokenMatcher as MD

ROLES = ["FeatureLine", "RuleLine", "BackgroundLine", "ScenarioLine", "ExamplesLine"]
ROLE_CATS = {"FeatureLine": ["feature"], "RuleLine": ["rule"], "BackgroundLine": ["background"], "ScenarioLine": ["scenario", "scenarioOutline"],
             "ExamplesLine": ["examples"]}
TITLES = ["", " name here ", "x", " issue #", " see ticket ##  ", " #", " C# and F#", " trailing colon: ", " `@tag` in title",
          ":smile: works", ":", "::x", " : spaced", "\ttab before", " #", "# x", " - x", "* y", " | a |", "\u00e9", ":\u00a0", " a:b", "\uff1a x", " x \\", " <a>", " \"\"\"", " eating \\<count\\> cucumbers", " C:\\>dir", " \\< \\\\> \\&", " the `@wip` and `@slow` markers", " `@a``@b`", " R&amp;D budget", " eating &lt;count&gt; cukes", " mail&#64;example &copy", " a &amp b &", " 100%% sure %s {0}", " Totals  per   month ", " tab\tinside\t\tx", "a \u00a0 b\u3000\u3000c"]


def tok(line):
    return gh.Token(gh.GherkinLine(line, 1), {"line": 1})


def role_matches(d, role, rest):
    """first listed keyword of the role's categories such that rest starts with keyword + ':'"""
    for c in ROLE_CATS[role]:
        for k in DIALECTS[d][c]:
            if rest.startswith(k + ":"):
                return k
    return None


def check_title(case, stats):
    d, cat, kw, depth, ind, ti = case["dialect"], case["cat"], case["kw"], case["depth"], case["indent"], case["title"]
    role = ROLE_OF_CAT[cat]
    rest = kw + ":" + TITLES[ti]
    variant = case.get("variant", "header")
    if variant == "header":
        # the one blank behind the hashes may also be a tab
        line = " " * ind + "#" * depth + case.get("blank", " ") + rest + "\n"
    elif variant == "nospace":
        line = " " * ind + "#" * depth + rest + "\n"
    else:
        line = " " * ind + rest + "\n"
    stats.case((d, cat, kw, depth, ind, ti, variant, case.get("history", 0), case.get("blank", " ")), True, sample=case, labels=[variant, "depth=%d" % depth] + (["after-history"] if case.get("history") else []))
    m = MD(d)
    if case.get("history"):
        # the same matcher has already recognised a feature header and seen other lines (no reset in between)
        for hl, meth in (("# " + DIALECTS[d]["feature"][0] + ": earlier", "match_FeatureLine"), ("prose", "match_FeatureLine"), ("## " + DIALECTS[d]["scenario"][0] + ": s", "match_ScenarioLine"),
                         ("```", "match_DocStringSeparator"))[: case["history"]]:
            getattr(m, meth)(tok(hl + "\n"))
    t = tok(line)
    got = getattr(m, "match_" + role)(t)
    should = variant == "header" and 1 <= depth <= 6
    if got != should:
        raise Violation(case, "%s line %r in dialect %s: match_%s returned %r, expected %r" % (cat, line, d, role, got, should))
    # the tag matcher looks at every line: tags quoted in a heading's title are tags of that line
    tl = tok(line)
    tg = MD(d).match_TagLine(tl)
    body_ = line.lstrip(" ")
    wt = [(x, (len(line) - len(body_)) + off + 2) for x, off in quoted_tags(body_.rstrip("\n"))]
    if tg != bool(wt) or (tg and [(i_["text"], i_["column"]) for i_ in tl.matched_items] != wt):
        raise Violation(case, "line %r: match_TagLine returned %r with %r, the backtick-quoted '@' words are %r" % (line, tg, [(i_["text"], i_["column"]) for i_ in tl.matched_items] if tg else [], wt))
    if should:
        want_kw = role_matches(d, role, rest)
        want = (want_kw, TITLES[ti].strip(), ind + depth + 2, role)
        have = (t.matched_keyword, t.matched_text, t.location.get("column"), t.matched_type)
        if have != want:
            raise Violation(case, "line %r in %s: (keyword, title, column, type) = %r, expected %r" % (line, d, have, want))
    # the parser offers ONE token to several match_* methods in turn: the answers must not depend on what was asked before
    shared = tok(line)
    m2 = MD(d)
    for r2 in ["StepLine", "TagLine"] + ROLES:
        ans = getattr(m2, "match_" + r2)(shared)
        fresh_ans = getattr(MD(d), "match_" + r2)(tok(line))
        if ans != fresh_ans:
            raise Violation(case, "line %r in %s: match_%s on a token that other matchers have looked at before returns %r, on a fresh token %r" % (line, d, r2, ans, fresh_ans))
        if ans and r2 == role and (shared.matched_keyword, shared.matched_text, shared.location.get("column")) != (role_matches(d, role, rest), TITLES[ti].strip(), ind + depth + 2):
            raise Violation(case, "line %r in %s: token shared between matchers ends up with (keyword, title, column) = %r" % (
                line, d, (shared.matched_keyword, shared.matched_text, shared.location.get("column"))))
    # other roles: recognised only where the language table lists a keyword of that role that fits
    for r2 in ROLES + ["StepLine"]:
        if r2 == role:
            continue
        g2 = getattr(MD(d), "match_" + r2)(tok(line))
        w2 = False
        if r2 != "StepLine" and variant == "header" and 1 <= depth <= 6:
            w2 = role_matches(d, r2, rest) is not None
        if g2 != w2:
            raise Violation(case, "line %r in %s: match_%s returned %r, expected %r" % (line, d, r2, g2, w2))


def unit_titles(a):
    stats = Stats()

    def gen():
        for i, d in enumerate(sorted(DIALECTS)):
            if i % a["nshards"] != a["shard"]:
                continue
            for cat in TITLE_CATS:
                for kw in DIALECTS[d][cat]:
                    for depth in range(1, 8):
                        for ind in range(0, 4):
                            for ti in range(len(TITLES) if (depth in (1, 6) and ind in (0, 3)) else 3):
                                yield {"sub": "title", "dialect": d, "cat": cat, "kw": kw, "depth": depth, "indent": ind, "title": ti}
                    for hist in (1, 2, 4):
                        yield {"sub": "title", "dialect": d, "cat": cat, "kw": kw, "depth": 2, "indent": 0, "title": 1, "history": hist}
                    for bl in ("\t",):
                        yield {"sub": "title", "dialect": d, "cat": cat, "kw": kw, "depth": 1 + (len(kw) % 6), "indent": len(kw) % 3, "title": 1, "blank": bl}
                    for ind in (0, 2):
                        for depth in (1, 3):
                            yield {"sub": "title", "dialect": d, "cat": cat, "kw": kw, "depth": depth, "indent": ind, "title": 1, "variant": "nospace"}
                        yield {"sub": "title", "dialect": d, "cat": cat, "kw": kw, "depth": 0, "indent": ind, "title": 1, "variant": "noprefix"}
    sweep(stats, gen(), check_title)
    return stats


def check_step(case, stats):
    d, kw, bullet, sp, ind = case["dialect"], case["kw"], case["bullet"], case["spaces"], case["indent"]
    rest = kw + case.get("text", "some text ")
    line = " " * ind + (bullet + case.get("blank", " ") * sp if bullet else "") + rest + "\n"
    stats.case((d, kw, bullet, sp, ind, case.get("history", 0), case.get("blank", " "), case.get("text")), True, sample=case, labels=["bullet" if bullet else "no-bullet"] + (["after-history"] if case.get("history") else []))
    m = MD(d)
    if case.get("history"):
        # recognition of a line does not depend on what the matcher was shown before (an open code fence, a feature header, prose)
        for hl, meth in (("```yaml", "match_DocStringSeparator"), ("# " + DIALECTS[d]["feature"][0] + ": f", "match_FeatureLine"), ("prose", "match_Other"),
                         ("`@t`", "match_TagLine"), ("  | a |", "match_TableRow"))[: case["history"]]:
            try:
                getattr(m, meth)(tok(hl + "\n"))
            except AttributeError:
                pass
    t = tok(line)
    got = m.match_StepLine(t)
    if not bullet:
        # a keyword that itself begins with a list marker (the '* ' keyword) is its own bullet; anything else needs one
        if kw[:1] in "*+-":
            return
        if got:
            raise Violation(case, "step keyword %r without a list marker was recognised as a step: %r" % (kw, line))
        return
    if not got:
        raise Violation(case, "list item %r with step keyword %r of dialect %s not recognised as a step" % (line, kw, d))
    want_kw = next(k for k, _ in step_keywords(d) if rest.startswith(k))
    want = (want_kw, rest[len(want_kw):].strip(), ind + 1 + sp + 1, "StepLine")
    have = (t.matched_keyword, t.matched_text, t.location.get("column"), t.matched_type)
    if have != want:
        raise Violation(case, "step line %r in %s: (keyword, text, column, type) = %r, expected %r" % (line, d, have, want))
    for r2 in ROLES:
        if getattr(MD(d), "match_" + r2)(tok(line)):
            raise Violation(case, "step line %r in %s also matched as %s" % (line, d, r2))
    shared = tok(line)
    m2 = MD(d)
    for r2 in ROLES + ["StepLine"]:
        ans = getattr(m2, "match_" + r2)(shared)
        if ans != (r2 == "StepLine"):
            raise Violation(case, "step line %r in %s: one token offered to the matchers in turn: match_%s returned %r" % (line, d, r2, ans))
    if (shared.matched_keyword, shared.location.get("column")) != (want_kw, ind + 1 + sp + 1):
        raise Violation(case, "step line %r in %s: token shared between matchers ends up with keyword %r column %r" % (line, d, shared.matched_keyword, shared.location.get("column")))


def unit_steps(a):
    stats = Stats()

    def gen():
        for i, d in enumerate(sorted(DIALECTS)):
            if i % a["nshards"] != a["shard"]:
                continue
            seen = set()
            for kw, _ in step_keywords(d):
                if kw in seen:
                    continue
                seen.add(kw)
                for bullet in "*+-":
                    for sp in (1, 2, 5, 9):
                        for ind in range(0, 4):
                            yield {"sub": "step", "dialect": d, "kw": kw, "bullet": bullet, "spaces": sp, "indent": ind}
                    yield {"sub": "step", "dialect": d, "kw": kw, "bullet": bullet, "spaces": 1, "indent": 0, "history": 1}
                    yield {"sub": "step", "dialect": d, "kw": kw, "bullet": bullet, "spaces": 1, "indent": 2, "history": 5}
                    for bl in ("\t",):
                        yield {"sub": "step", "dialect": d, "kw": kw, "bullet": bullet, "spaces": 1 + (len(kw) % 2), "indent": len(kw) % 3, "blank": bl}
                    # step texts that look like other Markdown constructs (thematic breaks, list markers, tables, headers, quoted tags) or are empty
                    for tx in ("*", "* *", "- -", "***", "---", "___", "_ _ _", "| a |", "# x", "`@t`", "+", "", "> q", "1. x", "=== "):
                        yield {"sub": "step", "dialect": d, "kw": kw, "bullet": bullet, "spaces": 1, "indent": (len(kw) + len(tx)) % 3, "text": tx}
                yield {"sub": "step", "dialect": d, "kw": kw, "bullet": "", "spaces": 0, "indent": 0}
                yield {"sub": "step", "dialect": d, "kw": kw, "bullet": "", "spaces": 0, "indent": 2}
    sweep(stats, gen(), check_step)
    sweep(stats, [{"sub": "table-intact"}], check_table_intact)

    def cross():
        for i, d in enumerate(sorted(DIALECTS)):
            if i % a["nshards"] != a["shard"]:
                continue
            D = DIALECTS[d]
            for cat in TITLE_CATS:
                for kw in D[cat][:2]:
                    for bullet in ("- ", "* ", "+  ", "  - "):
                        yield {"sub": "cross", "dialect": d, "line": bullet + kw + ": x"}
            for kw, _ in step_keywords(d)[:6]:
                if kw[:1] in "*+-":
                    continue
                for hdr in ("# ", "## ", " ###### "):
                    yield {"sub": "cross", "dialect": d, "line": hdr + kw + "x"}
                # a list marker in the MIDDLE of a line starts nothing
                for tmpl in ("some prose - %sy", "3 cukes * %sz", "The **%sthe stack is empty** part", "a+%sb", "x: - %sy", "|- %sy", "1. %sy", "2) %sy", "10. %sy", "a. %sy", "> %sy", "| %sy", "[ ] %sy", "(1) %sy", "\u2022 %sy", "\u2013 %sy"):
                    yield {"sub": "cross", "dialect": d, "line": tmpl % kw}
            for cat in TITLE_CATS:
                for kw in D[cat][:1]:
                    for tmpl in ("see # %s: x", "a ## %s: y", "x#%s: z"):
                        yield {"sub": "cross", "dialect": d, "line": tmpl % kw}
    sweep(stats, cross(), check_cross)
    return stats


ROWS = [("| \\n-- |", False), ("| -\\n\\n |", False), ("| \\n\\n:-: | x |", False), ("| \\n |", False), ("| - \\n - |", False), ("| a \\| - | b |", False), ("| \\| --- |", False), ("| --- \\| |", False), ("| \\--- |", False), ("| a | b |", False), ("| --- | --- |", True), ("| :-- | x |", True), ("| --: |", True), ("| :-: | :-: |", True), ("| - |", True), ("| -x- | a |", False),
        ("| a-b | : |", False), ("|  |", False), ("| 1 | -- |", True)]


def check_table(case, stats):
    ind, (row, sep) = case["indent"], ROWS[case["row"]]
    line = " " * ind + row + "\n"
    stats.case((ind, row), True, sample=case, labels=["separator" if sep else "row", "indent=%d" % ind])
    t = tok(line)
    got = MD(case["dialect"]).match_TableRow(t)
    want = (2 <= ind <= 5) and not sep
    if got != want:
        raise Violation(case, "table line %r: match_TableRow returned %r, expected %r" % (line, got, want))
    if want:
        from vlib.refs import ref_row
        have = [(c["text"], c["column"]) for c in t.matched_items]
        if have != ref_row(line) or t.matched_type != "TableRow" or t.location.get("column") != ind + 1:
            raise Violation(case, "table row %r: items %r column %r, expected %r column %d" % (line, have, t.location.get("column"), ref_row(line), ind + 1))


def unit_tables(a):
    stats = Stats()
    sweep(stats, [{"sub": "table", "dialect": d, "indent": ind, "row": r} for d in ("en", "fr") for ind in range(0, 9) for r in range(len(ROWS))], check_table)
    return stats


def check_table_run(case, stats):
    """ONE matcher is offered the consecutive lines of a table (line numbers n, n+1, ...), as the parser does: every line gets the verdict
    it gets alone - a separator row is never a table row, wherever in the run it stands"""
    ind, rows, first = case["indent"], case["rows"], case["first_line"]
    m = MD(case["dialect"])
    seps = [ROWS[r][1] for r in rows]
    stats.case((ind, tuple(rows), first), any(seps[2:]) or (len(rows) > 2 and not any(seps)), sample=case, labels=["run-of-%d" % len(rows)])
    for i, r in enumerate(rows):
        row, sep = ROWS[r]
        line = " " * ind + row + "\n"
        t = gh.Token(gh.GherkinLine(line, first + i), {"line": first + i})
        got = m.match_TableRow(t)
        if got != (not sep):
            raise Violation(case, "line %d of a run of table lines through one matcher, %r: match_TableRow returned %r, expected %r (separator row: %r)" % (i + 1, line, got, not sep, sep))
        if got:
            from vlib.refs import ref_row
            have = [(c["text"], c["column"]) for c in t.matched_items]
            if have != ref_row(line):
                raise Violation(case, "line %d of a run of table lines through one matcher, %r: cells %r, expected %r" % (i + 1, line, have, ref_row(line)))


def unit_table_runs(a):
    import itertools
    stats = Stats()
    cases = [{"sub": "table-run", "dialect": d, "indent": ind, "rows": list(rows), "first_line": first}
             for n in range(2, a["maxlen"] + 1) for rows in itertools.product(range(len(ROWS)), repeat=n)
             for d, ind, first in (("en", 2, 1), ("fr", 5, 9))]
    sweep(stats, [c for i, c in enumerate(cases) if i % a["nshards"] == a["shard"]], check_table_run)
    return stats


def g_tagline(s):
    prose = ["", " ", "some prose ", "and ", "x", "(see) ", "# ", "- ", "é ", "@not-quoted "]
    tags = ["@a", "@b", "@tag-1", "@é", "@x.y", "@\U0001F600", "@wip"]
    parts = [" " * s.int(4), s.choice(prose)]
    items = []
    for _ in range(s.int(6)):
        tname = s.choice(tags)
        col = len("".join(parts)) + 2
        parts.append("`" + tname + "`")
        items.append((tname, col))
        parts.append(s.choice(prose))
    return {"sub": "tags", "line": "".join(parts), "items": [list(i) for i in items]}


def check_tags(case, stats):
    line = case["line"] + "\n"
    want = [tuple(i) for i in case["items"]]
    stats.case(line, len(want) >= 2, sample=case, labels=["tags=%d" % len(want)])
    t = tok(line)
    got = MD("en").match_TagLine(t)
    if got != bool(want):
        raise Violation(case, "line %r: match_TagLine returned %r, %d backtick-quoted tags present" % (line, got, len(want)))
    if want:
        have = [(i["text"], i["column"]) for i in t.matched_items]
        if have != want:
            raise Violation(case, "line %r: tags %r, expected %r" % (line, have, want))


def quoted_tags(text):
    """[(tag, 0-based offset of its backtick)]: scanning from the left, a backtick directly followed by '@', at least one more character that is
    not a backtick, and the next backtick; scanning resumes behind that closing backtick.  A backtick not followed by '@' quotes nothing."""
    out, i = [], 0
    while i < len(text):
        if text.startswith("`@", i):
            k = text.find("`", i + 2)
            if k > i + 2:
                out.append((text[i + 1:k], i))
                i = k + 1
                continue
        i += 1
    return out


def check_tags_raw(case, stats):
    """any short line over backtick, '@', a letter, blank: stray and unbalanced backticks included"""
    line = case["line"]
    body = line.lstrip(" ")
    ind = len(line) - len(body)
    want = [(tg, ind + off + 2) for tg, off in quoted_tags(body.rstrip("\n"))]
    stats.case(line, len(want) >= 1 and line.count("`") % 2 == 1, sample=case, labels=["tags=%d" % len(want)])
    t = tok(line + "\n")
    got = MD("en").match_TagLine(t)
    have = [(i["text"], i["column"]) for i in t.matched_items] if got else []
    if got != bool(want) or have != want:
        raise Violation(case, "line %r: match_TagLine returned %r with tags %r, the backtick-quoted '@' words are %r" % (line, got, have, want))


def unit_tags_raw(a):
    import itertools
    stats = Stats()

    def gen():
        n = 0
        for L in range(0, a["maxlen"] + 1):
            for tup in itertools.product("`@a ", repeat=L):
                n += 1
                if n % a["nshards"] == a["shard"]:
                    yield {"sub": "tags-raw", "line": "".join(tup)}
        for ln in ("a lone ` is literal here: `@smoke`", "  5` wide, tagged `@wip`", "`a`@b`c`", "``@a``", "```@a```", "`@a` `` `@b`", "`@a``@b`", "` `@a` `", "x`@a", "`@a b` `@c`", "`@`@a`", "`@\t`", "@a `@b` @c",
                   "\t`@a`", "   `@a`\t`@b`  ", "`@a`\u3000`@b`", "`@\u00e9` \U0001F600 `@\U0001F600`"):
            yield {"sub": "tags-raw", "line": ln}
    sweep(stats, gen(), check_tags_raw)
    return stats


def unit_tags(a):
    stats = Stats()
    strat = st.binary(min_size=40, max_size=40).map(lambda b: g_tagline(Src(b)))
    hyp(stats, strat, check_tags, a["n"], shard_seed(a["seed"], a["shard"], 19))
    return stats


def check_cross(case, stats):
    """a list item followed by a TITLE keyword, a header followed by a STEP keyword: neither is a keyword line of any kind -
    also when ONE token is offered to the matchers in turn, as the parser does"""
    d, line = case["dialect"], case["line"]
    stats.case((d, line), True, sample=case)
    for order in (ROLES + ["StepLine"], ["StepLine"] + ROLES, ROLES[::-1] + ["StepLine"]):
        shared = tok(line + "\n")
        m = MD(d)
        for r2 in order:
            if getattr(m, "match_" + r2)(shared):
                raise Violation(case, "line %r in %s: match_%s recognised it (matchers asked in the order %s on one token)" % (line, d, r2, " ".join(order)))


def check_table_intact(case, stats):
    """using the Markdown matcher must not modify the shared language table"""
    for d in ("en", "fr", "ht"):
        for line in ("* Given x\n", "- Soit y\n", "# Feature: f\n", "## Scenario: s\n", "  | a |\n", "`@t`\n", "prose\n"):
            m = MD(d)
            for meth in ("match_StepLine", "match_FeatureLine", "match_ScenarioLine", "match_TableRow", "match_TagLine", "match_Other"):
                getattr(m, meth)(tok(line))
    stats.case("language-table", True, sample=case)
    prob = gh.language_table_problem()
    if prob:
        raise Violation(case, "after using the Markdown matcher the shared language table is modified: " + prob)
    r = gh.parse("Feature: f\n Scenario: s\n  Given a\n  When b\n  Then c\n  And d\n")
    types = [s_["keywordType"] for s_ in r[1]["feature"]["children"][0]["scenario"]["steps"]] if r[0] == "ok" else r[1]
    if types != ["Context", "Action", "Outcome", "Conjunction"]:
        raise Violation(case, "after using the Markdown matcher a classic parse reports keyword types %r" % (types,))


def replay(case, stats):
    if case["sub"] == "table-intact":
        return check_table_intact(case, stats)
    if case["sub"] == "cross":
        return check_cross(case, stats)
    if case["sub"] == "tags-raw":
        return check_tags_raw(case, stats)
    return {"title": check_title, "step": check_step, "table": check_table, "tags": check_tags, "table-run": check_table_run}[case["sub"]](case, stats)


def run(ctx):
    q = ctx.quick
    ns = 16
    ctx.units("title-lines", unit_titles, [{"shard": i, "nshards": ns} for i in range(ns)], procs=ns)
    ctx.units("step-lines", unit_steps, [{"shard": i, "nshards": ns} for i in range(ns)], procs=ns)
    ctx.units("table-lines", unit_tables, [{}])
    ctx.units("table-line-runs-one-matcher", unit_table_runs, [{"maxlen": 4 if q else 5, "shard": i, "nshards": ns} for i in range(ns)], procs=ns)
    ctx.units("tag-lines", unit_tags, [{"n": 2250 if q else 12000, "seed": ctx.seed, "shard": i} for i in range(8 if q else 16)], procs=16)
    ctx.units("tag-lines-raw-exhaustive", unit_tags_raw, [{"maxlen": 8 if q else 10, "shard": i, "nshards": ns} for i in range(ns)], procs=ns)
    ctx.exhaustive = False
    ctx.extra["exhaustive_part"] = ("every line of length <= 8 (thorough 10) over backtick, '@', a letter and a blank for the tag matcher; 80 dialects x every title keyword x header depth 1..7 x indentation 0..3 x 3 titles (+ no blank after the hashes, no prefix); every step keyword x "
                                   "bullet * + - x 1..2 blanks x indentation 0..3 (+ without bullet); table indentation 0..8 x 10 rows: complete in both tiers")
    ctx.rule = ("fresh GherkinInMarkdownTokenMatcher per line; oracle from the language table and MARKDOWN_WITH_GHERKIN.md: role recognised iff 1..6 hashes + blank + listed keyword + ':', "
                "keyword = first listed, trimmed title, column = indent + depth + 2; other roles only where the table lists a fitting keyword; list item + step keyword = step with "
                "first prefixing keyword; no prefix = not recognised; table row iff indented 2..5 and no separator cell; tags = backtick-quoted @words with the column of each '@'. "
                "Every case distinct; tag lines are non-trivial with >=2 tags.")
