"""C17 - stream output is well-formed Cucumber Messages in the documented order."""
from __future__ import annotations

import contextlib
import io
import itertools
import json
import os
import sys

from hypothesis import strategies as st

from vlib import gh, noisy, schema
from vlib.common import Stats, Violation, diff_text, hyp, shard_seed, sweep
from vlib.model import Src
from vlib.refcompile import ref_compile
from vlib.refparse import ref_parse

from .c11 import collect_ids, shift_ids

MEDIA = "text/x.cucumber.gherkin+plain"


def all_id_values(x, acc):
    if isinstance(x, dict):
        for k, v in x.items():
            if k in ("id", "astNodeId") and isinstance(v, str) and v.lstrip("-").isdigit():
                acc.append(int(v))
            elif k == "astNodeIds" and isinstance(v, list):
                acc += [int(i) for i in v if isinstance(i, str) and i.lstrip("-").isdigit()]
            else:
                all_id_values(v, acc)
    elif isinstance(x, list):
        for v in x:
            all_id_values(v, acc)
    return acc


ODD_NAMES = ["src%d-%d.feature", "login[%d]-%d.feature", "a*b%d-%d.feature", "sp ace %d %d.feature", "\u00fcn\u00ef%d-%d.feature", "q?%d-%d.feature", "{%d,%d}.feature", "%d-%d", "_-%d-%d.feature",
             "x%d'y\"%d.feature", "back\\slash%d\\%d.feature", "per%%cent%d-%d.feature", "a&b;c%d-%d.feature", "tab\t%d-%d.feature", "UPPER%d-%d.FEATURE", "dot.%d.%d.", "#hash%d-%d.feature", "login%d-%d.feature:2", "checkout%d-%d.feature:12:34", "sign%%20up%d-%d.feature", "100%%25-%d-%d.feature", "a%%2Fb%d-%d.feature", "q%d-%d.feature?x=1", "h%d-%d.feature#L3", "notes%d-%d.md", "login%d-%d.feature.md", "x%d-%d.markdown", "README%d-%d.MD", "y%d-%d.feature.txt", "z%d-%d.json"]


def expected_for(uri, text, opts):
    """envelopes of one source for a fresh id counter - from the reference parser and reference compiler only"""
    ref = ref_parse(text)
    if not ref.accepted:
        return [{"parseError": {"source": {"uri": uri, "location": ({"line": l, "column": c} if c is not None else {"line": l})}, "message": m}}
                for l, c, m in ref.errors], False
    out = []
    doc = dict(ref.ast, uri=uri)
    if opts[0]:
        out.append({"source": {"uri": uri, "data": text, "mediaType": MEDIA}})
    if opts[1]:
        out.append({"gherkinDocument": doc})
    if opts[2]:
        out += [{"pickle": p} for p in ref_compile(doc, len(collect_ids(ref.ast, [])))]
    return out, True


def check_stream(case, stats):
    schema.calibrate()
    opts = tuple(case["opts"])
    paths = []
    try:
        written = {}
        hand_made = case.get("api") == "hand-made"
        fifo_writers = []
        for i, s in enumerate(case["sources"]):
            if hand_made:
                # source envelopes made by the caller (text that never was a file): any uri string, also the empty one
                paths.append(case["uris"][i % len(case["uris"])])
                continue
            if case.get("api") == "fifo" and i == len(case["sources"]) - 1:
                # the last "file" is a named pipe fed by another thread (process substitution, /dev/stdin): read to its end like any file
                import threading
                p = "pipe-%d-%d.feature" % (os.getpid(), i)
                os.mkfifo(p)

                def feed(p=p, s=s):
                    with open(p, "w", encoding="utf8", newline="") as f:
                        f.write(s)
                th = threading.Thread(target=feed, daemon=True)
                th.start()
                fifo_writers.append((p, th))
                paths.append(p)
                continue
            # the same source listed twice is the same file listed twice (same uri)
            if case.get("same_path_for_equal_sources") and s in written:
                paths.append(written[s])
                continue
            p = ODD_NAMES[(i + len(s)) % len(ODD_NAMES)] % (os.getpid(), i)
            with open(p, "w", encoding="utf8", newline="") as f:
                f.write(s)
            paths.append(p)
            written[s] = p
        if any(gh.names_existing_path(s) for s in case["sources"]):
            stats.label("excluded_known_F1")
            return
        if case.get("api") == "main":
            import scripts.generate_events as ge
            argv = ["generate_events"] + [f for f, o in zip(("--no-source", "--no-ast", "--no-pickles"), opts) if not o] + paths
            buf = io.StringIO()
            old = sys.argv
            sys.argv = argv
            try:
                with contextlib.redirect_stdout(buf):
                    ge.main()
            finally:
                sys.argv = old
            lines = buf.getvalue().split("\n")
            if lines[-1] != "":
                raise Violation(case, "generate_events output does not end with a newline")
            try:
                flat = [json.loads(l) for l in lines[:-1]]
            except ValueError as e:
                raise Violation(case, "generate_events printed a line that is not JSON: %s" % e)
            per_source = None
        elif case.get("api") == "round-robin":
            # all generators are created first and advanced alternately (zip / merge style consumption); without pickles each
            # source still owns a contiguous id range, so the usual expectation applies
            opts = (opts[0], opts[1], False)
            ev = gh.GherkinEvents(gh.GherkinEvents.Options(*opts))
            gens = [ev.enum(se) for se in gh.SourceEvents(paths).enum()]
            per_source = [[] for _ in gens]
            live = list(range(len(gens)))
            while live:
                for i in list(live):
                    try:
                        per_source[i].append(next(gens[i]))
                    except StopIteration:
                        live.remove(i)
            flat = [e for es in per_source for e in es]
        else:
            ev = gh.GherkinEvents(gh.GherkinEvents.Options(*opts))
            per_source = []
            # the paths may come as any iterable (a generator over a directory listing, a tuple)
            given = iter(list(paths)) if case.get("api") == "iterator-paths" else tuple(paths) if case.get("api") == "tuple-paths" else paths
            events = ([{"source": {"uri": u, "data": t, "mediaType": "text/x.cucumber.gherkin+plain"}} for u, t in zip(paths, case["sources"])] if hand_made
                      else gh.SourceEvents(given).enum())
            for se in events:
                se_before = json.loads(json.dumps(se))
                if case.get("api") == "reordered-keys":
                    # the same source envelope with its keys in another order (e.g. after a sort-keys JSON round trip)
                    se = {"source": {k: se["source"][k] for k in ("mediaType", "data", "uri")}}
                got_envs = list(ev.enum(se))
                per_source.append(got_envs)
                if case.get("api") != "reordered-keys" and se != se_before:
                    raise Violation(case, "GherkinEvents.enum modified the source event it was given, %s" % diff_text(se, se_before, "after", "before"))
            flat = [e for es in per_source for e in es]
        for e in flat:
            try:
                schema.envelope(e)
            except schema.Bad as b:
                raise Violation(case, "envelope is not a well-formed Cucumber Message: %s\n%s" % (b, json.dumps(e, ensure_ascii=True)[:400]))
        # expected sequence, source by source, ids shifted to the running counter
        exp_all = []
        accepted = []
        for p, s in zip(paths, case["sources"]):
            exp, ok = expected_for(p, s, opts)
            exp_all.append(exp)
            accepted.append(ok)
        if per_source is None:
            # split the flat output by the expected lengths (the printed form has no grouping)
            per_source, k = [], 0
            for exp in exp_all:
                per_source.append(flat[k:k + len(exp)])
                k += len(exp)
            if k != len(flat):
                raise Violation(case, "generate_events printed %d envelopes, expected %d" % (len(flat), k))
        if len(per_source) != len(exp_all):
            raise Violation(case, "%d sources were listed (%s) but the stream handled %d" % (len(exp_all), case.get("api", "enum"), len(per_source)))
        seen_ids = set()
        for i, (got, exp) in enumerate(zip(per_source, exp_all)):
            ids = [int(x) for x in collect_ids([g for g in got if "source" not in g], [])]
            # the id offset of this source: smallest id mentioned anywhere (ids and back references) versus a fresh run
            gv = all_id_values([g for g in got if "source" not in g], [])
            xv = all_id_values([g for g in exp if "source" not in g], [])
            base = (min(gv) - min(xv)) if (gv and xv) else 0
            if base < 0:
                raise Violation(case, "source #%d: ids run backwards (offset %d against a fresh stream)" % (i, base))
            if seen_ids & set(ids):
                raise Violation(case, "source #%d reuses ids of an earlier source: %r" % (i, sorted(seen_ids & set(ids))[:5]))
            seen_ids |= set(ids)
            shifted = [g if "source" in g or "parseError" in g else shift_ids(g, base) for g in got]
            if shifted != exp:
                raise Violation(case, "envelopes of source #%d (options source/ast/pickles=%r) differ from the documented sequence, %s" % (
                    i, opts, diff_text(shifted, exp, "stream", "expected")))
        arg = any("argument" in s_ for es in exp_all for e in es if "pickle" in e for s_ in e["pickle"]["steps"])
        stats.case(case, (len(paths) >= 2 and not all(accepted)) or arg, sample={"opts": opts, "n_sources": len(paths), "accepted": accepted, "first": case["sources"][0][:160]},
                   labels=["opts=%d%d%d" % tuple(int(o) for o in opts), "sources=%d" % len(paths), case.get("api", "enum")] + (["has-rejected"] if not all(accepted) else []))
    finally:
        for p, th in fifo_writers:
            # release a writer still waiting for a reader (the library never opened the pipe)
            with contextlib.suppress(OSError):
                fd = os.open(p, os.O_RDONLY | os.O_NONBLOCK)
                th.join(5)
                os.close(fd)
        if not hand_made:
            for p in paths:
                with contextlib.suppress(OSError):
                    os.unlink(p)


SPECIALS = [
    "~", "~root", "~/x.feature", "$HOME", "${HOME}/x.feature",
    # bytes that look like another encoding's signature, NULs at even/odd offsets
    "#\x00!\x00 comment\nFeature: f\n", "\x00", "F\x00e\x00a\x00t\x00", "\x00F\x00e", "\ufffeFeature: f\n", "\u00ff\u00feFeature: f\n", "\u00ef\u00bb\u00bfFeature: f\n",
    "# -*- coding: latin-1 -*-\nFeature: caf\u00e9\n",
    # values that make optional message fields empty after substitution; empty names; comment-only and blank-only sources
    "Feature: f\n Scenario Outline: o <a>\n  Given <a>\n   \"\"\"<a>\n   <a>\n   \"\"\"\n  And t\n   | <a> |\n  Examples:\n   | a |\n   |   |\n   | x |\n",
    "Feature:\n Scenario:\n  Given \n Rule:\n  Background:\n  Example:\n",
    "# only a comment\n", "\n\n  \n", "#language: fr\n# c\n",
    "@t\nFeature: f\n @u\n Scenario Outline: o\n  * <x>\n @e1\n Examples: one\n  | x |\n @e2\n Examples: two\n  | x |\n  | 1 |\n",
]


def g_stream(s):
    n = s.rng(1, 4)
    srcs = []
    for _ in range(n):
        k = s.int(8)
        if k == 0:
            srcs.append(s.choice(SPECIALS + ["", "﻿Feature: bom\n", "Feature: f\r\n  Scenario: s\r\n    Given x\r\n", "Feature: f\n  Scenario Outline: o\n    And <a>\n    Examples:\n      | a |\n      | 1 |\n",
                                  "Feature: f\n Scenario: s\n  Given t\n   | a |\n  And d\n   ```x\n   c\n   ```\n"]))
        else:
            srcs.append(noisy.g_noisy(s)[0])
    dup = s.int(4) == 0
    if dup and srcs:
        srcs.insert(s.int(len(srcs) + 1), srcs[s.int(len(srcs))])
    return {"sub": "stream", "sources": srcs, "opts": [bool(s.int(2)), bool(s.int(2)), bool(s.int(2))], "api": s.choice(["main", "enum", "enum", "enum", "round-robin", "reordered-keys", "hand-made"]), "uris": ["", "u", "0"],
            "same_path_for_equal_sources": dup}


def unit_stream(a):
    stats = Stats()
    strat = st.binary(min_size=2600, max_size=2600).map(lambda b: g_stream(Src(b)))
    hyp(stats, strat, check_stream, a["n"], shard_seed(a["seed"], a["shard"], 17))
    return stats


def large_sources():
    """sources larger than any plausible read buffer, full of 2-, 3- and 4-byte characters so that some character straddles every block boundary"""
    out = []
    for size in (70000, 140000, 300000):
        body = []
        n = 0
        i = 0
        while n < size:
            line = "  d%d %s\n" % (i, ("é" * (i % 7)) + ("日" * (i % 5)) + ("\U0001F600" * (i % 3)) + "x" * (i % 11))
            body.append(line)
            n += len(line.encode("utf8"))
            i += 1
        out.append("Feature: big\n" + "".join(body) + " Scenario: s\n  Given é\n")
    return out


def check_many_sources(case, stats):
    """one enumeration over more files than the process may hold open at once (every file is closed as soon as it is read)"""
    import resource
    n = case["files"]
    soft, hard = resource.getrlimit(resource.RLIMIT_NOFILE)
    paths = []
    try:
        for i in range(n):
            p = "many%d-%d.feature" % (os.getpid(), i)
            with open(p, "w", encoding="utf8", newline="") as f:
                f.write("Feature: f%d\n Scenario: s\n  Given x%d\n" % (i, i))
            paths.append(p)
        resource.setrlimit(resource.RLIMIT_NOFILE, (min(case["limit"], soft), hard))
        try:
            ev = gh.GherkinEvents(gh.GherkinEvents.Options(False, False, True))
            count = 0
            names = []
            for se in gh.SourceEvents(paths).enum():
                for env in ev.enum(se):
                    count += 1
                    if not isinstance(env, dict) or list(env) != ["pickle"]:
                        raise Violation(case, "with options (source, ast, pickles) = (False, False, True) the stream yields an envelope %r" % (sorted(env) if isinstance(env, dict) else env,))
                    names.append(env["pickle"]["uri"])
        finally:
            resource.setrlimit(resource.RLIMIT_NOFILE, (soft, hard))
        stats.case(("many-sources", n), True, sample=case)
        if names != paths:
            raise Violation(case, "a stream of %d sources yielded pickles for %d of them (order preserved: %s)" % (n, count, names == paths[:len(names)]))
    finally:
        for p in paths:
            with contextlib.suppress(OSError):
                os.unlink(p)


def unit_corpus(a):
    stats = Stats()
    sweep(stats, [{"sub": "many-sources", "files": 400, "limit": 128}], check_many_sources)
    texts = noisy.corpus_texts()
    cases = []
    for big in large_sources():
        cases.append({"sub": "stream", "sources": [big, "Feature: after\n"], "opts": [True, True, True], "api": "enum"})
        cases.append({"sub": "stream", "sources": ["Feature: before\n Scenario: s\n  Given x\n", big], "opts": [False, True, False], "api": "main"})
    for i in range(0, len(texts), 5):
        cases.append({"sub": "stream", "sources": [t for _, t in texts[i:i + 3]], "opts": [True, True, True], "api": "round-robin"})
        cases.append({"sub": "stream", "sources": [t for _, t in texts[i:i + 3]], "opts": [True, True, True], "api": "reordered-keys"})
    for i in range(0, len(texts), 6):
        for opts in ([True, True, True], [False, True, False], [False, False, True]):
            cases.append({"sub": "stream", "sources": [t for _, t in texts[i:i + 3]], "opts": opts, "api": "hand-made", "uris": ["", " ", "0", "None", "a b", "\u00e9.feature", "x" * 300][i % 7:] + [""]})
    same = texts[3][1]
    cases.append({"sub": "stream", "sources": [same, texts[4][1], same, same], "opts": [True, True, True], "api": "enum", "same_path_for_equal_sources": True})
    cases.append({"sub": "stream", "sources": [same, same], "opts": [False, False, True], "api": "main", "same_path_for_equal_sources": True})
    for opts in itertools.product([True, False], repeat=3):
        for i in range(0, len(texts), 4):
            cases.append({"sub": "stream", "sources": [t for _, t in texts[i:i + 4]], "opts": list(opts), "api": "main" if (i // 4) % 3 == 0 else "enum"})
    sweep(stats, cases, check_stream)
    stats.notes["golden_lines_validated_by_shape_validator"] = schema.calibrate() or "done"
    return stats


def check_big(case, stats):
    return check_stream({"sub": "stream", "sources": [case["text"], "Feature: after\n Scenario: s\n  Given x\n"], "opts": [True, True, True], "api": "enum"}, stats)


def replay(case, stats):
    if case["sub"] == "big":
        return check_big(case, stats)
    if case["sub"] == "many-sources":
        return check_many_sources(case, stats)
    return check_stream(case, stats)


def run(ctx):
    q = ctx.quick
    ctx.units("corpus-all-options", unit_corpus, [{}])
    from . import magnitude
    magnitude.run_big(ctx, "c17", "check_big", "big")
    ctx.units("generated-streams", unit_stream, [{"n": 300 if q else 3000, "seed": ctx.seed, "shard": i} for i in range(8 if q else 16)], procs=16)
    ctx.rule = ("streams of 1..4 sources (valid, mutated, rejected, CRLF, BOM) written to files, loaded by SourceEvents and pushed through one GherkinEvents with each of the 8 option "
                "combinations, or through scripts.generate_events.main in-process; oracle: envelope sequence per source = [source?][gherkinDocument?][pickle*] built from the reference "
                "parser and reference compiler (fresh ids), compared after subtracting the id offset; only parseError envelopes for a rejected source; every envelope passes the "
                "hand-written Cucumber Messages shape validator and a JSON round trip; ids never reused across sources. Non-trivial = >=2 sources with >=1 rejected, or pickles with "
                "a step argument; distinct = distinct stream.")
    ctx.assumptions += ["shape validator vlib/schema.py (calibrated on every golden ndjson line on this run)", "reference parser + reference compiler give the expected envelopes"]
