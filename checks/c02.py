"""C02 - accepted language and rule nesting are exactly those of gherkin.berp; table equals the siblings'."""
from __future__ import annotations

from hypothesis import strategies as st

from vlib import gh, tables
from vlib.berp import grammar
from vlib.common import HarnessError, Stats, Violation, hyp, shard_seed, sweep
from vlib.refs import KINDS

SKIP = {"Empty", "Comment", "TagLine"}
SIBS = ["ruby", "go", "java", "c", "javascript"]


# ------------------------------------------------------------------ layer 1: table identity
def check_table(case, stats):
    name, s = case["sibling"], case["state"]
    drop = name == "javascript"
    py, pla = tables.normalise(tables.python_dynamic(), drop)
    sib, sla = tables.normalise(tables.extract(name), drop)
    if len(sib) != 42:
        if name == "python-static":
            return
        raise HarnessError("table scanner found %d states in %s" % (len(sib), name))
    if s == "lookaheads":
        stats.case(case, True, sample=case)
        if sla != pla:
            raise Violation(case, "look-ahead definitions differ from %s: python %r, sibling %r" % (name, pla, sla))
        return
    s = int(s)
    stats.case(case, len(py[s][0]) > 4, sample={"sibling": name, "state": s, "python_row": [list(map(str, t)) for t in py[s][0]][:3]})
    if py[s] != sib[s]:
        for i, (a, b) in enumerate(zip(py[s][0], sib[s][0])):
            if a != b:
                raise Violation(case, "state %d, transition #%d: running python parser does %r, %s parser has %r" % (s, i, a, name, b))
        raise Violation(case, "state %d differs from %s: python %r vs %r" % (s, name, py[s], sib[s]))


def unit_tables(a):
    stats = Stats()
    try:
        py = tables.python_dynamic()
    except Violation as v:
        stats.fail(v.case, v.message)
        return stats
    ntrans = sum(len(v[0]) for v in py["states"].values())
    stats.notes["python_states"] = len(py["states"])
    stats.notes["python_transitions"] = ntrans
    cache = {}

    def fast(case, st):
        # same as check_table but with tables extracted once per sibling
        name, s = case["sibling"], case["state"]
        drop = name == "javascript"
        if (name, drop) not in cache:
            cache[(name, drop)] = (tables.normalise(py, drop), tables.normalise(tables.extract(name), drop))
        (pt, pla), (sib, sla) = cache[(name, drop)]
        if len(sib) != 42:
            if name == "python-static":
                st.label("static-view-skipped")
                return
            raise HarnessError("table scanner found %d states in %s" % (len(sib), name))
        if s == "lookaheads":
            st.case(case, True, sample=case)
            if sla != pla:
                raise Violation(case, "look-ahead definitions differ from %s: python %r, sibling %r" % (name, pla, sla))
            return
        st.case(case, len(pt[s][0]) > 4, sample={"sibling": name, "state": s})
        if pt[s] != sib[s]:
            check_table(case, st)
            raise Violation(case, "state %d differs from %s" % (s, name))
    cases = [{"sub": "table", "sibling": n, "state": s} for n in SIBS + ["python-static"] for s in tables.STATES + ["lookaheads"]]
    sweep(stats, cases, fast, stop_after=3)
    # EOF tails: accepted exactly where the grammar allows the document to end
    return stats


# ------------------------------------------------------------------ layer 2: bisimulation with the grammar automaton
def py_step(PY, s, K, outcome):
    T = PY[s][0]
    for (k, la, ev, tgt) in T:
        if k == "TagLine" and K == "TagLine":
            if la is None:
                return ev, tgt
            need = {0: "ScenarioLine", 1: "ExamplesLine"}[la]
            if outcome == need:
                return ev, tgt
            continue
        if k == K or (k == "Other" and K != "EOF"):
            return ev, tgt
    return None


def real_step(s, K, outcome, lookaheads):
    """drive the real match_token in state s with a token of kind K; look-ahead outcome forced through the real queue"""
    from collections import deque
    b = tables.RecordingBuilder()
    p = gh.Parser(b)
    m = tables.StubMatcher()
    ahead = []
    if outcome == "ExamplesLine":
        ahead = [["Comment", "Other"], ["ExamplesLine", "Other"]]
    elif outcome == "ScenarioLine":
        ahead = [["Empty", "Other"], ["TagLine", "Other"], ["ScenarioLine", "Other"]]
    elif outcome == "Neither":
        ahead = [["TagLine", "Other"], ["RuleLine", "Other"]]
    sc = tables.ListScanner([tables.stub_token(k, 2 + i) for i, k in enumerate(ahead)], eof_line=99)
    ctx = gh.ParserContext(sc, m, deque(), [])
    kinds = [K] if K == "EOF" else [K, "Other"]
    new = p.match_token(s, tables.stub_token(kinds, 1), ctx)
    if ctx.errors:
        return None
    q = [t.location["line"] for t in ctx.token_queue]
    if q != list(range(2, 2 + len(q))):
        raise Violation({"sub": "bisim"}, "look-ahead left the queue out of order: %r" % q)
    return [e if e[0] != "build" else ("build",) for e in b.ev], new


def nfa_step(G, node, K, prom):
    opts = G.options(node, K)
    if K == "TagLine" and len(opts) > 1:
        kind, val = prom
        if kind == "must":
            opts = [o for o in opts if val in G.follow(o[1])]
        else:
            opts = [o for o in opts if not (G.follow(o[1]) & val)]
    return opts


def bisim(stats, fail_case=None):
    G = grammar()
    PYT = tables.python_dynamic()["states"]
    strip = lambda ev: [e for e in ev if e not in (("start", "GherkinDocument"), ("end", "GherkinDocument"))]
    seen = set()
    work = [(0, G.begin, None, ())]
    while work:
        s, node, promise, path = work.pop()
        if (s, node, promise) in seen:
            continue
        seen.add((s, node, promise))
        row = PYT[s][0]
        guards = [la for k, la, _, _ in row if k == "TagLine" and la is not None]
        for K in KINDS:
            if promise and K not in SKIP:
                if promise[0] == "must" and K != promise[1]:
                    continue
                if promise[0] == "not" and K in promise[1]:
                    continue
            outcomes = [None]
            if K == "TagLine" and guards and not promise:
                outcomes = (["ExamplesLine"] if 1 in guards else []) + ["ScenarioLine", "Neither"]
            for oc in outcomes:
                newprom = promise if (promise and K in SKIP) else None
                if oc == "ExamplesLine":
                    newprom = ("must", "ExamplesLine")
                elif oc == "ScenarioLine":
                    newprom = ("must", "ScenarioLine")
                elif oc == "Neither":
                    newprom = ("not", frozenset(["ExamplesLine", "ScenarioLine"] if 1 in guards else ["ScenarioLine"]))
                case = {"sub": "bisim", "state": s, "kind": K, "lookahead": oc, "path": list(path)}
                pending = promise if promise else None
                eff_oc = oc
                if K == "TagLine" and guards and promise:
                    # a tag line met while a look-ahead promise is pending: the real look-ahead will see the same follower
                    eff_oc = promise[1] if promise[0] == "must" else "Neither"
                    if promise[0] == "must" and promise[1] == "ExamplesLine" and 1 not in guards:
                        eff_oc = "Neither"
                p = py_step(PYT, s, K, eff_oc if eff_oc != "Neither" else None)
                r = real_step(s, K, eff_oc, None) if (K == "TagLine" and guards) else real_step(s, K, None, None)
                n = nfa_step(G, node, K, newprom if newprom else ("not", frozenset()))
                stats.case((s, node, str(promise), K, str(oc)), K == "TagLine" or len(path) >= 3, sample=case,
                           labels=["lookahead" if (K == "TagLine" and guards) else "plain"])
                if (p is None) != (r is None) or (p is not None and (list(map(tuple, p[0])) != list(map(tuple, r[0])) or p[1] != r[1])):
                    raise Violation(case, "probed table and live match_token disagree in state %d on %s (look-ahead %s): table %r, live %r" % (s, K, eff_oc, p, r))
                if p is None:
                    if n:
                        raise Violation(case, "state %d rejects a %s line that the grammar allows here (after %s)" % (s, K, " ".join(path) or "start"))
                    continue
                if not n:
                    raise Violation(case, "state %d accepts a %s line that the grammar does not allow here (after %s)" % (s, K, " ".join(path) or "start"))
                if len(n) != 1:
                    raise HarnessError("grammar automaton ambiguous at %r on %s: %r" % (path, K, n))
                ev, t, _ = n[0]
                pev = [tuple(e) for e in p[0]]
                nev = strip(list(ev)) + [("build",)]
                if pev != nev:
                    raise Violation(case, "state %d on %s (after %s): parser emits %r, the grammar derivation needs %r" % (s, K, " ".join(path) or "start", pev, nev))
                if p[1] == tables.END_STATE:
                    if not G.accepting_events(t):
                        raise Violation(case, "parser ends the document where the grammar cannot end")
                    continue
                work.append((p[1], t, newprom, path + (K,)))
    stats.notes["triples"] = len(seen)
    stats.notes["python_states_reached"] = len({s for s, _, _ in seen})
    return stats


def check_bisim(case, stats):
    bisim(stats)


def unit_bisim(a):
    stats = Stats()
    try:
        tables.python_dynamic()
    except Violation:
        return stats  # reported by table-identity
    try:
        bisim(stats)
    except Violation as v:
        stats.fail(v.case, v.message)
    except HarnessError as h:
        stats.harness_errors.append(str(h))
    if not stats.failures and stats.notes.get("python_states_reached") != 42:
        stats.harness_errors.append("bisimulation reached only %r of 42 states" % stats.notes.get("python_states_reached"))
    return stats


# ------------------------------------------------------------------ layer 3: sequences through the real Parser.parse
def resolve_language(G, kinds, flavour):
    return kinds


def run_real(kinds, flavour):
    toks = []
    for i, k in enumerate(kinds):
        if k == "EOF":
            break
        ks = {k, "Other"}
        if k == "Language" and flavour == "text":
            ks.add("Comment")
        toks.append(tables.stub_token(ks, i + 1))
    b = tables.RecordingBuilder()
    p = gh.Parser(b)
    sc = tables.ListScanner(toks)
    try:
        p.parse(sc, tables.StubMatcher())
        return True, b.ev, None
    except gh.CompositeParserException as e:
        return False, b.ev, [x.location["line"] for x in e.errors]


def nfa_run(G, kinds, flavour):
    """like Grammar.run but a Language line is a comment wherever #Language is not expected (flavour 'text')"""
    configs = [(G.begin, G.begin_trace)]
    for i, k in enumerate(kinds):
        nxt = {}
        for node, trace in configs:
            kk = k
            if k == "Language" and flavour == "text" and "Language" not in G.follow(node):
                kk = "Comment"
            for ev, t, eff in G.options(node, kk):
                nxt[(t, trace + tuple(ev) + (("build", i + 1),))] = None
        if not nxt:
            return False, i + 1
        configs = list(nxt)
    done = set()
    for node, trace in configs:
        for ev in G.accepting_events(node):
            done.add(trace + ev)
    if not done:
        return False, len(kinds) + 1
    if len(done) != 1:
        raise HarnessError("ambiguous derivation for %r" % (kinds,))
    return True, list(done.pop())


def check_seq(case, stats):
    G = grammar()
    kinds = list(case["kinds"])
    if not kinds or kinds[-1] != "EOF":
        kinds = kinds + ["EOF"]
    flavour = case.get("flavour", "pure")
    acc, info = nfa_run(G, kinds, flavour)
    ok, ev, errlines = run_real(kinds, flavour)
    tagrun = any(kinds[i] == "TagLine" and kinds[i + 1] in SKIP for i in range(len(kinds) - 1))
    stats.case((tuple(kinds), flavour), len(set(kinds)) >= 4, sample=case,
               labels=["accepted" if acc else "rejected"] + (["lookahead-run"] if tagrun else []))
    if acc != ok:
        raise Violation(case, "token sequence %s is %s by the grammar but %s by the parser (errors at lines %r)" % (
            " ".join(kinds), "a sentence" if acc else "not a sentence", "accepted" if ok else "rejected", errlines))
    if acc:
        if [tuple(e) for e in ev] != [tuple(e) for e in info]:
            for i, (a, b) in enumerate(zip(ev, info)):
                if tuple(a) != tuple(b):
                    raise Violation(case, "sequence %s: builder event #%d is %r, the derivation has %r" % (" ".join(kinds), i, a, b))
            raise Violation(case, "sequence %s: builder saw %d events, the derivation has %d" % (" ".join(kinds), len(ev), len(info)))
    else:
        if not errlines or errlines[0] != info:
            raise Violation(case, "sequence %s: first error reported at line %r, the sentence breaks at line %d" % (" ".join(kinds), errlines, info))


def viable_prefixes(G, L):
    """all kind sequences of length <= L (without EOF) that are prefixes of sentences"""
    level = [((), [G.begin])]
    yield ()
    for _ in range(L):
        nxt = []
        for pre, nodes in level:
            for k in KINDS[1:]:
                tn = {}
                for n in nodes:
                    for ev, t, eff in G.options(n, k):
                        tn[t] = None
                if tn:
                    p = pre + (k,)
                    nxt.append((p, list(tn)))
                    yield p
        level = nxt


def unit_prefixes(a):
    stats = Stats()
    G = grammar()

    def gen():
        n = 0
        for pre in viable_prefixes(G, a["L"]):
            n += 1
            if n % a["nshards"] != a["shard"]:
                continue
            for k in KINDS:
                for fl in (("pure", "text") if ("Language" in pre or k == "Language") else ("pure",)):
                    yield {"sub": "seq", "kinds": list(pre) + [k], "flavour": fl}
    sweep(stats, gen(), check_seq)
    return stats


LONG_PREFIXES = {
    "feature": ["FeatureLine"],
    "background-step": ["FeatureLine", "BackgroundLine", "StepLine"],
    "scenario-step": ["FeatureLine", "ScenarioLine", "StepLine"],
    "examples-table": ["FeatureLine", "ScenarioLine", "StepLine", "ExamplesLine", "TableRow"],
    "rule-scenario": ["FeatureLine", "RuleLine", "ScenarioLine", "StepLine", "DocStringSeparator", "Other", "DocStringSeparator"],
    "rule-examples": ["FeatureLine", "RuleLine", "ScenarioLine", "ExamplesLine"],
}


def unit_long_runs(a):
    """look-ahead over long runs of tag / comment / blank lines (a bound on the number of buffered lines would show here)"""
    stats = Stats()

    def gen():
        pats = {"tags": lambda i: "TagLine", "comments": lambda i: "Comment", "blanks": lambda i: "Empty",
                "mixed": lambda i: ("TagLine", "Comment", "Empty")[i % 3], "mixed2": lambda i: ("Empty", "Empty", "TagLine", "Comment")[i % 4]}
        k = 0
        for name, pre in LONG_PREFIXES.items():
            for n in a["lengths"]:
                for pn, f in pats.items():
                    k += 1
                    if k % a["nshards"] != a["shard"]:
                        continue
                    run = [f(i) for i in range(n)]
                    for term in (["ScenarioLine"], ["ExamplesLine"], ["RuleLine"], ["Other"], [], ["ScenarioLine", "StepLine", "TagLine", "Empty", "ExamplesLine"]):
                        yield {"sub": "seq", "kinds": pre + ["TagLine"] + run + term, "flavour": "pure"}
    sweep(stats, gen(), check_seq)
    return stats


DENSE = ["TagLine", "ScenarioLine", "ExamplesLine", "RuleLine", "StepLine", "TableRow", "BackgroundLine", "Comment"]


def unit_dense(a):
    """deep but narrow: all sequences over the 8 structural kinds after a scenario step (several look-aheads in a row,
    rules after outlines, tags after tags ...)"""
    import itertools
    stats = Stats()

    def gen():
        n = 0
        for L in range(1, a["L"] + 1):
            for tup in itertools.product(DENSE, repeat=L):
                n += 1
                if n % a["nshards"] != a["shard"]:
                    continue
                if tup.count("TagLine") == 0:
                    continue  # covered by the plain prefix sweep
                yield {"sub": "seq", "kinds": ["FeatureLine", "ScenarioLine", "StepLine"] + list(tup), "flavour": "pure"}
    sweep(stats, gen(), check_seq)
    return stats


@st.composite
def st_walk(draw):
    """random walk on the grammar automaton with occasional deviations"""
    G = grammar()
    nodes = [G.begin]
    kinds = []
    n = draw(st.integers(1, 60))
    for _ in range(n):
        fol = sorted({k for nd in nodes for k in G.follow(nd)} | {"Comment", "Empty"})
        if draw(st.integers(0, 24)) == 0:
            k = draw(st.sampled_from(KINDS[1:]))
        else:
            cand = [k for k in fol if k != "EOF"]
            if "TagLine" in cand and draw(st.integers(0, 2)) == 0:
                k = "TagLine"
            else:
                k = draw(st.sampled_from(cand))
        tn = {}
        for nd in nodes:
            for ev, t, eff in G.options(nd, k):
                tn[t] = None
        kinds.append(k)
        if not tn:
            break
        nodes = list(tn)
    return {"sub": "seq", "kinds": kinds + ["EOF"], "flavour": draw(st.sampled_from(["pure", "text"]))}


def unit_walks(a):
    stats = Stats()
    hyp(stats, st_walk(), check_seq, a["n"], shard_seed(a["seed"], a["shard"], 2))
    return stats


def replay(case, stats):
    if case["sub"] == "table":
        return check_table(case, stats)
    if case["sub"] == "bisim":
        return bisim(stats)
    if case["sub"] == "text":
        from . import c02_text
        return c02_text.check_text(case, stats)
    return check_seq(case, stats)


def run(ctx):
    q = ctx.quick
    ctx.units("table-identity", unit_tables, [{}])
    ctx.units("bisimulation", unit_bisim, [{}])
    L = 4 if q else 6
    ns = 16
    ctx.units("prefix-sequences", unit_prefixes, [{"L": L, "shard": i, "nshards": ns} for i in range(ns)], procs=ns)
    ctx.units("long-lookahead-runs", unit_long_runs, [{"lengths": list(range(0, 40)) + [48, 64, 100, 128, 129, 256, 257, 1100] + ([] if q else [500, 1023, 1024, 1025, 2000, 4096, 4097]),
                                                       "shard": i, "nshards": 16} for i in range(16)], procs=16)
    ctx.units("dense-structural-sequences", unit_dense, [{"L": 6 if q else 7, "shard": i, "nshards": 16} for i in range(16)], procs=16)
    ctx.units("random-walks", unit_walks, [{"n": 600 if q else 6000, "seed": ctx.seed, "shard": i} for i in range(8 if q else 16)], procs=16)
    from . import magnitude
    magnitude.run_big(ctx, "c02_text", "check_text", "text")
    try:
        from . import c02_text
        c02_text.run_text(ctx)
    except ImportError:
        pass
    ctx.exhaustive = False
    ctx.extra["exhaustive_part"] = ("table identity over all 42 states x 5 siblings; bisimulation over all reachable (parser state, grammar node, "
                                   "look-ahead promise) triples x 14 kinds; every viable prefix of length <= %d extended by each kind" % L)
    ctx.extra["states"] = 42
    ctx.rule = ("layer 1: probed table of the live parser vs each sibling table, one case per (sibling, state); layer 2: one case per "
                "(reachable triple, line kind, look-ahead outcome) comparing the live match_token with the automaton built from gherkin.berp; "
                "layer 3: token-kind sequences through Parser.parse with stub scanner/matcher and recording builder: accepted iff sentence, "
                "builder events == unique derivation, first error at the token where the sentence breaks. Non-trivial: table rows with >4 "
                "transitions; bisimulation steps on tag lines or at depth >=3; sequences with >=4 distinct kinds. Distinct = distinct case tuple.")
    ctx.assumptions += ["EBNF reader / NFA construction in vlib/berp.py is a faithful reading of gherkin.berp",
                        "sibling parsers are compared as text (not executed); the Python table is probed from the running parser",
                        "parser reaction depends only on (state, line kind, look-ahead outcome) - tested by layer 3 through the real queue"]
