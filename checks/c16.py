"""C16 - layout is meaning-neutral: line endings, indentation, padding, blank lines (metamorphic relations)."""
from __future__ import annotations

import os
import re

from hypothesis import strategies as st

from vlib import gh, model, noisy
from vlib.common import Stats, Violation, diff_text, hyp, shard_seed, sweep
from vlib.instr import RecordingAstBuilder
from vlib.model import Src
from vlib.refs import split_lines

LAYOUT_KINDS = {"FeatureLine", "RuleLine", "BackgroundLine", "ScenarioLine", "ExamplesLine", "StepLine", "TagLine", "TableRow", "DocStringSeparator"}
PREFIX = re.compile(r"^\((\d+):(\d+)\): ")
URI = "u.feature"
COMMENT = "  # vfy inserted"


def outcome(source, dflt="en", scanner=None):
    g = gh.IdGenerator()
    b = RecordingAstBuilder(g)
    r = gh.parse(scanner if scanner is not None else source, dflt, builder=b)
    o = {"ok": r[0] == "ok", "delivered": list(b.delivered)}
    if o["ok"]:
        doc = dict(r[1], uri=URI)
        o["ast"] = r[1]
        o["pickles"] = gh.Compiler(g).compile(doc)
    else:
        o["errors"] = r[1]
    return o


def drop_columns(x):
    if isinstance(x, dict):
        return {k: drop_columns(v) for k, v in x.items() if k != "column"}
    if isinstance(x, list):
        return [drop_columns(v) for v in x]
    return x


def errs_without_columns(errs):
    return [(l, PREFIX.sub(lambda m: "(%s:_): " % m.group(1), m_)) for l, c, m_ in errs]


def shift_columns(x, lines, k):
    """columns of everything located on one of `lines` reduced by k (undoing an indentation of k characters)"""
    if isinstance(x, dict):
        if "line" in x and "column" in x and set(x) <= {"line", "column"}:
            return {"line": x["line"], "column": x["column"] - k} if x["line"] in lines else x
        return {kk: shift_columns(v, lines, k) for kk, v in x.items()}
    if isinstance(x, list):
        return [shift_columns(v, lines, k) for v in x]
    return x


def shift_err_columns(errs, lines, k):
    out = []
    for l, c, m_ in errs:
        if l in lines and c is not None:
            m_ = PREFIX.sub(lambda m: "(%s:%d): " % (m.group(1), int(m.group(2)) - k), m_)
            c = c - k
        out.append((l, c, m_))
    return out


def renumber(x, f):
    if isinstance(x, dict):
        return {k: (f(v) if k == "line" else renumber(v, f)) for k, v in x.items()}
    if isinstance(x, list):
        return [renumber(v, f) for v in x]
    return x


def renumber_errs(errs, f):
    return [(f(l), c, PREFIX.sub(lambda m: "(%d:%s): " % (f(int(m.group(1))), m.group(2)), m_)) for l, c, m_ in errs]


def same(case, what, base, new, proj=lambda x: x, projerr=lambda e: e):
    if base["ok"] != new["ok"]:
        raise Violation(case, "%s turns an %s document into an %s one: %r" % (what, "accepted" if base["ok"] else "rejected", "accepted" if new["ok"] else "rejected",
                                                                                 (new if not new["ok"] else base).get("errors", [])[:2]))
    if base["ok"]:
        if proj(base["ast"]) != proj(new["ast"]):
            raise Violation(case, "%s changes the AST, %s" % (what, diff_text(proj(new["ast"]), proj(base["ast"]), "transformed", "original")))
        if base["pickles"] != new["pickles"]:
            raise Violation(case, "%s changes the pickles, %s" % (what, diff_text(new["pickles"], base["pickles"], "transformed", "original")))
    elif projerr(base["errors"]) != projerr(new["errors"]):
        raise Violation(case, "%s changes the errors: %r vs original %r" % (what, projerr(new["errors"])[:3], projerr(base["errors"])[:3]))


def docstring_blocks(delivered):
    """[(first line, last line)] of doc strings: delimiter pairs among the delivered tokens"""
    seps = [l for k, l in delivered if k == "DocStringSeparator"]
    return [(seps[i], seps[i + 1]) for i in range(0, len(seps) - 1, 2)]


def check_layout(case, stats):
    text, dflt = case["text"], case.get("default", "en")
    if gh.names_existing_path(text):
        stats.label("excluded_known_F1")
        return
    if "\r" in text.replace("\r\n", ""):
        stats.label("lone-CR(outside the property's domain)")
        return
    sel = Src(bytes(case.get("choices", [])))
    base = outcome(text, dflt)
    raw = split_lines(text)
    eols = ["\r\n" if l.endswith("\r\n") else "\n" if l.endswith("\n") else "" for l in raw]
    body = [l[:len(l) - len(e)] for l, e in zip(raw, eols)]
    kind_of = {l: k for k, l in base["delivered"]}
    blocks = docstring_blocks(base["delivered"])
    in_block = lambda ln: any(a < ln < b for a, b in blocks)
    layout_lines = [i + 1 for i in range(len(body)) if kind_of.get(i + 1) in LAYOUT_KINDS]
    has_arg = any(k in ("TableRow", "DocStringSeparator", "Other") for k, _ in base["delivered"])
    touched = 0

    def pick(lines):
        mode = sel.int(3)
        if mode == 0 or not lines:
            return lines[:1] if not lines else [sel.choice(lines)]
        if mode == 1:
            return [l for l in lines if sel.int(2)] or lines[:1]
        return list(lines)

    join = lambda bs, es=eols: "".join(b + e for b, e in zip(bs, es))

    # T1 LF -> CRLF
    t1 = text.replace("\r\n", "\n").replace("\n", "\r\n")
    same(case, "T1 writing the document with CRLF line endings", base, outcome(t1, dflt))
    if not gh.names_existing_path(t1):
        same(case, "T1 writing the document with CRLF line endings and handing it over as a scanner object", base, outcome(None, dflt, scanner=gh.TokenScanner(t1)))
    # T0 the same characters handed over as another string object: a str subclass (as templating / i18n libraries return), a string
    # built at run time that shares nothing with the original
    class Markup(str):
        pass
    same(case, "T0 handing the text over as an instance of a str subclass", base, outcome(Markup(text), dflt))
    same(case, "T0 handing the text over as a scanner made from an instance of a str subclass", base, outcome(None, dflt, scanner=gh.TokenScanner(Markup(text))))
    # T2 string -> file (scanner on a path, and the stream's source_event)
    path = "layout-%d-%d.feature" % (os.getpid(), len(text) % 7)
    # the path string itself, while no such file exists, is just a (rejected) one-line text ...
    as_text_before = outcome(path, dflt) if not os.path.exists(path) else None
    with open(path, "w", encoding="utf8", newline="") as f:
        f.write(text)
    try:
        o2 = outcome(None, dflt, scanner=gh.TokenScanner(path))
        same(case, "T2 loading the document from a file (TokenScanner(path))", base, o2)
        if o2["delivered"] != base["delivered"]:
            raise Violation(case, "T2 loading the document from a file delivers other line tokens than the string: %r vs %r" % (o2["delivered"][-4:], base["delivered"][-4:]))
        if dflt == "en":
            ev = gh.GherkinEvents(gh.GherkinEvents.Options(True, True, True))
            out = list(ev.enum(gh.source_event(path)))
            if base["ok"]:
                want = [{"source": {"uri": path, "data": text, "mediaType": "text/x.cucumber.gherkin+plain"}}, {"gherkinDocument": dict(base["ast"], uri=path)}] + \
                    [{"pickle": dict(p, uri=path)} for p in base["pickles"]]
            else:
                want = [{"parseError": {"source": {"uri": path, "location": ({"line": l, "column": c} if c is not None else {"line": l})}, "message": m}} for l, c, m in base["errors"]]
            if out != want:
                raise Violation(case, "T2 loading through source_event + GherkinEvents differs from parsing the string, %s" % diff_text(out, want, "stream", "string"))
        # several files listed at once, all source events held before the first is processed
        if dflt == "en":
            other = path + ".other.feature"
            with open(other, "w", encoding="utf8") as f:
                f.write("Feature: another file\n Scenario: o\n  Given o\n")
            try:
                evs = list(gh.SourceEvents([path, other]).enum())
                out = list(gh.GherkinEvents(gh.GherkinEvents.Options(True, True, True)).enum(evs[0]))
                if out != want:
                    raise Violation(case, "T2 loading through SourceEvents (all events collected first) differs from parsing the string, %s" % diff_text(out, want, "stream", "string"))
            finally:
                os.unlink(other)
        # the file is rewritten in place with another document of the same length and its time stamps are put back (cp -p, rsync -t):
        # what is parsed is what the file holds NOW
        flipped = "".join(chr(ord(c) ^ 1) if c in "xyzw" else c for c in text)
        if flipped != text and len(flipped.encode("utf8")) == len(text.encode("utf8")):
            st_ = os.stat(path)
            outcome(None, dflt, scanner=gh.TokenScanner(path))
            with open(path, "r+", encoding="utf8", newline="") as f:
                f.write(flipped)
            os.utime(path, ns=(st_.st_atime_ns, st_.st_mtime_ns))
            try:
                same(case, "T2 loading a file that was rewritten in place (same size, same time stamps) since it was last parsed", outcome(flipped, dflt), outcome(None, dflt, scanner=gh.TokenScanner(path)))
            finally:
                with open(path, "w", encoding="utf8", newline="") as f:
                    f.write(text)
        # the same file below a deep directory: a path longer than any single-name limit (but well below PATH_MAX)
        deep = os.path.join(*(["d" * 60] * 6))
        os.makedirs(deep, exist_ok=True)
        lp = os.path.join(deep, "f" * 40 + "-%d.feature" % os.getpid())
        with open(lp, "w", encoding="utf8", newline="") as f:
            f.write(text)
        try:
            same(case, "T2 loading the document from a file with a %d-character path" % len(lp), base, outcome(None, dflt, scanner=gh.TokenScanner(lp)))
        finally:
            os.unlink(lp)
    finally:
        os.unlink(path)
    # ... and is that text again once the file is gone (what a string means is decided anew by every scanner)
    if as_text_before is not None:
        as_text_after = outcome(path, dflt)
        if as_text_after != as_text_before:
            raise Violation(case, "the string %r parsed before the file existed and after it was removed again gives different results: %r vs %r" % (
                path, as_text_after.get("errors"), as_text_before.get("errors")))
    # lines the parser reported as unexpected are keyword / step / tag / row lines by their looks too (nothing of them is delivered to the builder):
    # padding them and putting a comment in front of them changes nothing but line numbers either
    unexpected = [] if base["ok"] else sorted({l for l, c, m in base["errors"] if "got '" in m and 1 <= l <= len(body) and not in_block(l)})
    # T3 trailing blanks
    if layout_lines or unexpected:
        chosen = set(pick(sorted(set(layout_lines) | set(unexpected))))
        blanks = sel.choice([" ", "  ", "\t", " \t ", "\xa0", "\u3000", " \u2003"])
        t3 = join([b + (blanks if i + 1 in chosen else "") for i, b in enumerate(body)])
        touched = max(touched, len(chosen))
        same(case, "T3 adding trailing blanks to lines %r" % sorted(chosen)[:6], base, outcome(t3, dflt))
    # T4 extra indentation (a doc string moves as one block)
    if layout_lines:
        chosen = set(pick([l for l in layout_lines if kind_of[l] != "DocStringSeparator" or True]))
        for a, b in blocks:
            if a in chosen or b in chosen or any(a < l < b for l in chosen):
                chosen |= set(range(a, b + 1))
        # an unterminated doc string: keep its lines out (the block has no end)
        seps = [l for k, l in base["delivered"] if k == "DocStringSeparator"]
        if len(seps) % 2 == 1:
            chosen = {l for l in chosen if l < seps[-1]}
        if chosen:
            pre = sel.choice([" ", "  ", "\t", "    "])
            if case.get("indent_by"):
                pre = (pre[0] if pre[0] == "\t" and case["indent_by"] % 2 else " ") * case["indent_by"]
            t4 = join([(pre + b if i + 1 in chosen else b) for i, b in enumerate(body)])
            touched = max(touched, len(chosen))
            o4 = outcome(t4, dflt)
            same(case, "T4 indenting lines %r further" % sorted(chosen)[:6], base, o4, proj=drop_columns, projerr=errs_without_columns)
            # and the columns on the indented lines move by exactly the added indentation (nothing else moves);
            # comments are whole lines at column 1 and are not among the indented lines
            if base["ok"]:
                back = shift_columns(o4["ast"], chosen, len(pre))
                if back != base["ast"]:
                    raise Violation(case, "T4 indenting lines %r by %d: columns do not move by exactly that amount, %s" % (
                        sorted(chosen)[:6], len(pre), diff_text(back, base["ast"], "transformed minus indentation", "original")))
    # T5 / T6 inserted blank / comment lines
    for what, filler in (("T5 inserting a blank line", ["", "  ", "\t"]), ("T6 inserting a comment line", [COMMENT])):
        if what.startswith("T5"):
            positions = list(range(1, len(body) + 2))
        else:
            opening = {a for a, b in blocks} | ({l for k, l in base["delivered"] if k == "DocStringSeparator"} - {b for a, b in blocks})
            positions = sorted(set([l for l in layout_lines if kind_of[l] != "DocStringSeparator" or l in opening]) | set(unexpected))
        positions = [p for p in positions if not in_block(p) and not any(p == b for a, b in blocks)]
        seps = [l for k, l in base["delivered"] if k == "DocStringSeparator"]
        if len(seps) % 2 == 1:
            positions = [p for p in positions if p <= seps[-1]]
        if not positions:
            continue
        chosen = sorted(set(pick(positions)))[:8]
        fill = sel.choice(filler)
        nb, ne = [], []
        eol = "\r\n" if "\r\n" in eols else "\n"
        for i, b in enumerate(body):
            if i + 1 in chosen:
                nb.append(fill)
                ne.append(eol)
            nb.append(b)
            ne.append(eols[i])
        if len(body) + 1 in chosen:
            if ne and ne[-1] == "":
                ne[-1] = eol
            nb.append(fill)
            ne.append(eol)
        new = outcome(join(nb, ne), dflt)
        # where the inserted lines ended up
        ins = []
        for c in chosen:
            ins.append(c + len(ins))
        f = lambda l: l + sum(1 for c in chosen if c <= l)
        kinds_new = {l: k for k, l in new["delivered"]}
        expect_kind = "Empty" if what.startswith("T5") else "Comment"
        if base["ok"] and new["ok"] and any(kinds_new.get(l) != expect_kind for l in ins):
            stats.label("%s: inadmissible position (inside free text), discarded" % what[:2])
            continue
        if not base["ok"] and any(kinds_new.get(l) not in (expect_kind, None) for l in ins):
            stats.label("%s: inadmissible position (inside free text), discarded" % what[:2])
            continue
        touched = max(touched, len(chosen))
        if what.startswith("T5"):
            same(case, "%s before line(s) %r" % (what, chosen), {**base, **({"ast": renumber(base["ast"], f)} if base["ok"] else {"errors": renumber_errs(base["errors"], f)})}, new)
        else:
            if base["ok"]:
                exp = renumber(base["ast"], f)
                added = [{"location": {"line": l, "column": 1}, "text": fill} for l in ins]
                exp = dict(exp, comments=sorted(exp["comments"] + added, key=lambda c: c["location"]["line"]))
                same(case, "%s before line(s) %r" % (what, chosen), {**base, "ast": exp}, new)
            else:
                same(case, "%s before line(s) %r" % (what, chosen), {**base, "errors": renumber_errs(base["errors"], f)}, new)
    # T7 final line break
    if base["ok"] and text:
        t7 = text[:-len(eols[-1])] if eols[-1] else text + "\n"
        if not (eols[-1] and body[-1] == ""):
            n7 = outcome(t7, dflt)
            if not n7["ok"] or n7["ast"] != base["ast"]:
                raise Violation(case, "T7 %s the final line break changes the AST: %s" % ("removing" if eols[-1] else "adding",
                                                                                          diff_text(n7.get("ast"), base["ast"], "transformed", "original") if n7["ok"] else n7["errors"][:2]))
    stats.case(text, has_arg and touched >= 2, sample={"text": text}, labels=["accepted" if base["ok"] else "rejected", case.get("label", "-")])


def unit_noisy(a):
    stats = Stats()
    strat = st.tuples(noisy.st_noisy(), st.binary(min_size=24, max_size=24)).map(
        lambda x: {"sub": "layout", "text": x[0][0], "default": x[0][1], "label": x[0][2], "choices": list(x[1])})
    hyp(stats, strat, check_layout, a["n"], shard_seed(a["seed"], a["shard"], 16))
    return stats


def unit_model(a):
    stats = Stats()

    def mk(x):
        d, b = x
        d = dict(d, eol="\n")
        r = model.try_render(d)
        return {"sub": "layout", "text": r.text if r else "Feature: f\n", "default": d["default"], "label": "model", "choices": list(b)}
    strat = st.tuples(model.st_doc(), st.binary(min_size=24, max_size=24)).map(mk)
    hyp(stats, strat, check_layout, a["n"], shard_seed(a["seed"], a["shard"], 17))
    return stats


def unit_corpus(a):
    stats = Stats()
    cases = []
    for n, t in noisy.corpus_texts():
        for v in range(a["variants"]):
            cases.append({"sub": "layout", "text": t, "label": "corpus:" + n, "choices": [(v * 37 + i * 11 + a["seed"]) % 256 for i in range(24)]})
    for n, t in noisy.length_boundary_documents(False):
        cases.append({"sub": "layout", "text": t, "label": "length-boundary:" + n, "choices": [(len(t) * 7 + i * 13 + a["seed"]) % 256 for i in range(24)]})
    for t in ["# encoding: iso-8859-1\nFeature: Caf\u00e9\n Scenario: \u00fc\n", "# encoding: utf-16\nFeature: f\n", "#encoding:cp1252\n# language: fr\nFonctionnalit\u00e9: \u20ac\n",
              "# vim: set fileencoding=latin-1 :\nFeature: \u00e9\n", "Feature: I keep $HOME and ${HOME} and ~/x\n Scenario: $PATH\n  Given $USER\n", "~/notes\n",
              "#\x00!\x00 comment\nFeature: f\n", "F\x00e\x00a\x00t\x00", "\ufffeFeature: f\n", "\u00ff\u00feFeature: f\n", "# -*- coding: latin-1 -*-\nFeature: caf\u00e9\n",
              "Feature: f\n Scenario: s\n @dangling\n\n\n", "Feature: f\n Scenario: s\n  Given x\n   \"\"\"\n\n\n\n", "Feature: f\n\n\n\n", "\n\n\n", "Feature: f\n @t\n # c\n\n",
              "Feature: f\n Scenario: s\n  Given x\n   | a |\n\n\n", "garbage\n\n\n"]:
        cases.append({"sub": "layout", "text": t, "label": "ends-in-blank-lines", "choices": [3] * 24})
    # control characters that mean "end of text" to other systems, as the last character / last line / first character of a document
    for ch in ("\x1a", "\x04", "\x00", "\x03", "\x1c", "\x7f", "\ufeff", "\u2028", "\x0c"):
        for t in ("Feature: f\n Scenario: s\n  Given x" + ch, "Feature: f\n Scenario: s\n  Given x\n" + ch, "Feature: f\n Scenario: s\n  Given x\n" + ch + "\n", "Feature: f\n# c" + ch, ch + "Feature: f\n",
                  "Feature: f\n Scenario: s\n  Given x\n   | a" + ch + " |" + ch):
            cases.append({"sub": "layout", "text": t, "label": "end-of-text-characters", "choices": [5] * 24})
    # a CR LF file of a little over 1 MiB in which a CR sits at every byte offset 32k+31, hence directly in front of every power-of-two block boundary
    big_crlf = "Feature: f\r\n Scenario: ssssssss\r\n" + "".join("  Given %022d\r\n" % i for i in range((1 << 20) // 32 + 200))
    cases.append({"sub": "layout", "text": big_crlf, "label": "crlf-file-over-1MiB", "choices": [0] * 24, "budget_s": 150})
    from .magnitude import transition_documents
    for i, (n, t) in enumerate(transition_documents(accepted_only=False)):
        cases.append({"sub": "layout", "text": t, "label": "transition:" + n, "choices": [2] * 24})
    from .c17 import large_sources
    cases.append({"sub": "layout", "text": large_sources()[0], "label": "large-non-ascii-file", "choices": [1] * 24})
    cases.append({"sub": "layout", "text": "\ufeffFeature: bom\n Scenario: s\n  Given x\n", "label": "bom", "choices": [2] * 24})
    # indentation far beyond anything a bounded scan of the leading white space would allow for
    rich = ("@t @u\nFeature: f\n desc\n Background:\n  Given b\n @s\n Scenario Outline: o <a>\n  Given <a> x\n   | a | b |\n  And d\n   \"\"\"m\n   c\n   \"\"\"\n  @e   @f\n  Examples: e\n   | a |\n   | 1 |\n"
            " Rule: r\n  Scenario: s\n   * y\n   ```\n   z\n   ```\n")
    for k in [255, 256, 257, 4096, 65535, 65536, 65537, 70001] + ([] if a.get("quick", True) else [(1 << 20) + 1]):
        for c in (0, 1, 2, 3, 5, 7):
            cases.append({"sub": "layout", "text": rich, "label": "deep-indentation-%d" % k, "choices": [c, c + 1, c * 3, 255 - c] * 6, "indent_by": k, "budget_s": 120})
    sweep(stats, cases[a.get("part", 0)::a.get("parts", 1)], check_layout)
    return stats


def replay(case, stats):
    return check_layout(case, stats)


def run(ctx):
    q = ctx.quick
    ctx.units("corpus", unit_corpus, [{"variants": 3 if q else 12, "seed": ctx.seed, "part": p_, "parts": 8} for p_ in range(8)], procs=8)
    ctx.units("model-documents", unit_model, [{"n": 225 if q else 2500, "seed": ctx.seed, "shard": i} for i in range(8 if q else 16)], procs=16)
    ctx.units("noisy-documents", unit_noisy, [{"n": 225 if q else 2500, "seed": ctx.seed, "shard": i} for i in range(8 if q else 16)], procs=16)
    ctx.rule = ("base documents: acceptance corpus (good and bad), generated well-formed documents, noisy documents (accepted or rejected), carriage returns only in CRLF; "
                "each base gets all seven transformations (T1 CRLF, T2 file via TokenScanner(path) and source_event+GherkinEvents, T3 trailing blanks, T4 extra indentation with doc "
                "strings moved as a block, T5 blank lines, T6 comment lines before keyword/step/tag/row/opening-delimiter lines, T7 final line break) at one / several / all "
                "admissible positions chosen by Hypothesis-drawn bytes; oracle = AST, pickles, errors identical / identical without columns / identical after renumbering lines "
                "(+ exactly the inserted comments). Positions whose inserted line is not delivered as Empty/Comment (inside free text) are discarded and counted. "
                "Non-trivial = base has a step argument or description and a transformation touched >=2 lines; distinct = distinct base text.")
    ctx.assumptions += ["line kinds of the base document are taken from the base run's delivered tokens"]
