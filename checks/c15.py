"""C15 - no hidden state: results are independent of earlier and concurrent parses."""
from __future__ import annotations

import copy
import hashlib
import itertools
import json
import os
import subprocess
import sys
import threading

from hypothesis import strategies as st

from vlib import gh, noisy
from vlib.common import REPO, VERIF, HarnessError, Stats, Violation, diff_text, hyp, shard_seed, sweep
from vlib.model import Src

from .c11 import collect_ids, shift_ids

POOL = {
    "table_then_garbage": "Feature: f\n  Scenario: s\n    Given x\n      | a | b | c |\n      | d | e | f |\n  garbage right behind the rows\n",
    "en_ok": "Feature: f\n  Scenario: s\n    Given x\n",
    "fr_hdr": "#language: fr\nFonctionnalité: f\n  Scénario: s\n    Soit x\n",
    "open_q": "Feature: f\n  Scenario: s\n    Given x\n      \"\"\"\n      abc\n",
    "open_b": "Feature: f\n  Scenario: s\n    Given x\n   ```\n \\`\\`\\` abc\n",
    "cap": "Feature: f\n" + "".join("  Scenario: s\n  Given x\n  bad line %d\n" % i for i in range(13)),
    "comments": "# c1\nFeature: f\n # c2\n  Scenario: s\n    # c3\n    Given x\n",
    "pending_tags": "Feature: f\n  Scenario: s\n    Given x\n  @t\n  # c\n\n  @u\n",
    "bad_lang": "#language: zz\nFeature: f\n",
    "ragged": "Feature: f\n  Scenario: s\n    Given x\n      | a | b |\n      | c |\n",
    "deep": "Feature: f\n  Rule: r\n    Background:\n      Given b\n    Scenario Outline: o\n      Given <a>\n      @t\n      Examples:\n        | a |\n        garbage\n",
    "empty": "",
    "no_default": "Egenskap: f\n  Scenario: s\n    Gitt x\n",
    "q_in_desc": "Feature: f\n  \\\"\\\"\\\" desc \\`\\`\\`\n  Scenario: s\n    Given x\n      \"\"\"\n        \\\"\\\"\\\"\n      \"\"\"\n",
    "tagws": "Feature: f\n  @a b\n  Scenario: s\n",
    "outline": "@f\nFeature: f\n  Background:\n    Given b\n  @s\n  Scenario Outline: o <a>\n    And <a>\n      | <a> |\n    @e\n    Examples:\n      | a |\n      | 1 |\n      | 2 |\n",
    "ragged_then_tags": "Feature: f\n Scenario: s\n  Given x\n   | a | b |\n   | c |\n @t\n\n # c\n Scenario: t\n  Given y\n",
    "cap_in_docstring": "Feature: f\n" + "".join(" bad %d\n Scenario: s\n" % i for i in range(10)) + "  Given x\n   \"\"\"\n   never closed\n",
    "doc_q": "Feature: f\n Scenario: s\n  Given x\n   \"\"\"md\n    body\n   \"\"\"\n  And y\n   | a |\n",
    "doc_b": "Feature: f\n Background:\n  Given x\n    ```\n    body\n    ```\n Scenario: s\n  Then y\n   | b | c |\n",
    "en_hdr": "# language: en\nFeature: f\n Scenario: s\n  Given x\n",
    "fr_plain": "Fonctionnalité: f\n Scénario: s\n  Soit x\n  Et y\n",
    "tagws_lookahead": "Feature: f\n Scenario: s\n  Given x\n @ok\n # c\n @needs review\n Scenario: t\n",
    "pirate_hdr_doc": "# language: en-pirate\nAhoy matey!: f\n  Heave to: s\n    Gangway! x\n      \"\"\"json\n      {}\n      \"\"\"\n",
}
PERTURBING = {"ragged_then_tags", "cap_in_docstring", "fr_hdr", "open_q", "open_b", "cap", "pending_tags", "bad_lang", "ragged", "deep", "tagws", "pirate_hdr_doc", "q_in_desc"}


def norm_result(r):
    """('ok', doc with ids made relative) | ('err', errors)"""
    if r[0] != "ok":
        return ("err", r[1])
    ids = [int(x) for x in collect_ids(r[1], [])]
    return ("ok", shift_ids(r[1], min(ids)) if ids else r[1])


def parse_default(parser, text, stop):
    """Parser.parse(text) with no matcher argument: the parser's own default matcher"""
    parser.stop_at_first_error = stop
    try:
        return ("ok", parser.parse(text))
    except gh.CompositeParserException as e:
        return ("err", [gh.err_tuple(x) for x in e.errors])
    except gh.ParserException as e:
        return ("err", [gh.err_tuple(e)])


def fresh(text, dflt, stop):
    return norm_result(gh.parse(text, dflt, stop=stop))


def pickles_norm(compiler, doc):
    d = dict(doc, uri="u")
    before = copy.deepcopy(d)
    pk = compiler.compile(d)
    if d != before:
        raise Violation({"sub": "purity"}, "compile modified the document it was given, %s" % diff_text(d, before, "after", "before"))
    ids = [int(x) for x in collect_ids(pk, [])]
    base = min(ids) if ids else 0
    return [dict(p, id=str(int(p["id"]) - base), steps=[dict(s, id=str(int(s["id"]) - base)) for s in p["steps"]]) for p in pk]


def check_history(case, stats):
    """items: [(text, stop)] through ONE parser + ONE matcher (+ ONE compiler)"""
    dflt = case["default"]
    items = case["items"]
    if any(gh.names_existing_path(t) for t, _ in items):
        stats.label("excluded_known_F1")
        return
    parser = gh.Parser()
    other_parser = gh.Parser()   # case["two_parsers"]: the one matcher serves two parsers in turn
    # own_matcher=False: the parser's default matcher path (parse(text) without a matcher; only meaningful for 'en')
    own = case.get("own_matcher", True) or dflt != "en"
    matcher = gh.TokenMatcher(dflt) if own else None
    compiler = gh.Compiler()
    if matcher is not None and case.get("dirty_matcher"):
        # the matcher has been used directly (outside parse) before the history starts
        for pre_line, meth in (("# language: no", "match_Language"), ("  ```", "match_DocStringSeparator"), ("x", "match_Other")):
            getattr(matcher, meth)(gh.Token(gh.GherkinLine(pre_line + "\n", 1), {"line": 1}))
    from gherkin.dialect import DIALECTS as LIVE
    dialects_before = copy.deepcopy(LIVE) if case.get("check_dialects") else None
    perturbed = False
    nt = False
    kept = []  # (index, result object as returned, snapshot taken when it was returned)
    kept_exc = []  # (index, exception object as raised, its errors as read when it was raised)
    for i, (text, stop) in enumerate(items):
        if case.get("swap_builder") and i % 2 == 1:
            # the used parser gets a brand-new builder (ast_builder is a public attribute)
            parser.ast_builder = gh.AstBuilder(gh.IdGenerator())
        mixed = case.get("mixed_call_styles") and dflt != "en"
        if mixed:
            # call styles alternate on ONE parser: an explicit matcher of another dialect, then none at all (= a fresh English one)
            if i % 2 == 0:
                r = gh.parse(text, parser=parser, matcher=gh.TokenMatcher(dflt), stop=stop)
                want = fresh(text, dflt, stop)
            else:
                r = parse_default(parser, text, stop)
                want = fresh(text, "en", stop)
        elif case.get("scanner_objects") and own and i % 2 == 1 and not stop:
            # the document comes as a TokenScanner object; afterwards the same scanner (drained, unless the parse stopped early at the error limit) is parsed once more and read directly
            sc = gh.TokenScanner(text)
            r = gh.parse(sc, parser=parser, matcher=matcher, stop=False)
            sc2 = gh.TokenScanner(text)
            gh.parse(sc2, dflt)
            drained_want = norm_result(gh.parse(sc2, dflt))
            drained = norm_result(gh.parse(sc, parser=parser, matcher=matcher, stop=False))
            if drained != drained_want or sc.read().eof() != sc2.read().eof():
                raise Violation(case, "document #%d of the history was handed over as a scanner object; parsing that drained scanner again with the used parser gives %r, with fresh instances %r" % (
                    i, drained, drained_want))
        elif case.get("clones") and own:
            # prototype / clone pattern: every document gets a copy (copy.copy / copy.deepcopy / pickle round trip) of the one parser and of the one matcher (odd documents use the
            # prototypes themselves); copies share whatever the originals hold by reference
            import pickle
            how = [copy.copy, copy.deepcopy, gh.pickle_clone][(i // 2 + len(items)) % 3]
            r = gh.parse(text, parser=parser if i % 2 else how(parser), matcher=matcher if i % 2 else how(matcher), stop=stop)
        elif case.get("two_parsers") and own:
            r = gh.parse(text, parser=other_parser if i % 2 else parser, matcher=matcher, stop=stop)
        else:
            r = gh.parse(text, parser=parser, matcher=matcher, stop=stop) if own else parse_default(parser, text, stop)
        if not mixed and r[0] != "ok" and not stop and i + 1 < len(items):
            # the same rejection once more, this time keeping the exception object itself while the parser goes on
            parser.stop_at_first_error = False
            try:
                parser.parse(text, matcher) if own else parser.parse(text)
            except gh.CompositeParserException as e:
                kept_exc.append((i, e, [gh.err_tuple(x) for x in e.errors]))
            except gh.ParserException:
                pass
        got = norm_result(r)
        if not mixed:
            want = fresh(text, dflt, stop)
        if i > 0 and perturbed:
            nt = True
        if got != want:
            raise Violation(case, "document #%d of the history parsed with used instances differs from fresh instances: %s" % (
                i, diff_text(got, want, "reused", "fresh")))
        if r[0] == "ok":
            kept.append((i, r[1], copy.deepcopy(r[1])))
        if got[0] == "ok":
            pk = pickles_norm(compiler, got[1])
            pk2 = pickles_norm(gh.Compiler(), want[1])
            if pk != pk2:
                raise Violation(case, "pickles of document #%d from a used compiler differ from a fresh compiler's, %s" % (i, diff_text(pk, pk2, "reused", "fresh")))
        if r[0] != "ok" or "language:" in text or '"""' in text or "```" in text:
            perturbed = True
    for i, e, snap in kept_exc:
        now = [gh.err_tuple(x) for x in e.errors]
        if now != snap:
            raise Violation(case, "the errors carried by the exception raised for document #%d changed while the same parser processed later documents: now %r, when raised %r" % (i, now[:3], snap[:3]))
    for i, obj, snap in kept:
        if obj != snap:
            raise Violation(case, "the document returned for #%d of the history was modified by later parses with the same instances: %s" % (i, diff_text(obj, snap, "now", "when returned")))
    if dialects_before is not None and LIVE != dialects_before:
        raise Violation(case, "parsing modified the shared language table")
    stats.case(case, nt, sample={"default": dflt, "history": case.get("names") or [t[:40] for t, _ in items]}, labels=["len=%d" % len(items), dflt])


def unit_pool(a):
    stats = Stats()
    names = sorted(POOL)

    def gen():
        n = 0
        for dflt in ("en", "no", "fr"):
            for k in a["lengths"]:
                for hist in itertools.product(names, repeat=k):
                    for stops in ([False] * k, [True] + [False] * (k - 1), [False, True] + [False] * (k - 2)):
                        n += 1
                        if n % a["nshards"] != a["shard"]:
                            continue
                        if k == 3 and a["sample"] and (n // a["nshards"]) % a["sample"] != a["seed"] % a["sample"]:
                            continue
                        yield {"sub": "history", "default": dflt, "names": list(hist), "items": [[POOL[h], s] for h, s in zip(hist, stops)], "check_dialects": n % 50 == 0,
                               "own_matcher": not (dflt == "en" and n % 2), "dirty_matcher": n % 3 == 0, "mixed_call_styles": n % 5 == 0, "clones": False, "scanner_objects": False, "swap_builder": False, "two_parsers": n % 4 == 1}
    sweep(stats, gen(), check_history)
    return stats


def g_history(s):
    items = []
    for _ in range(s.rng(2, 5)):
        t = POOL[s.choice(sorted(POOL))] if s.int(3) == 0 else noisy.g_noisy(s)[0]
        items.append([t, s.int(4) == 0])
    return {"sub": "history", "default": s.choice(["en", "en", "fr", "no"]), "items": items, "check_dialects": True, "own_matcher": bool(s.int(2)), "clones": False, "scanner_objects": False, "swap_builder": False}


def unit_sampled(a):
    stats = Stats()
    strat = st.binary(min_size=3500, max_size=3500).map(lambda b: g_history(Src(b)))
    hyp(stats, strat, check_history, a["n"], shard_seed(a["seed"], a["shard"], 15))
    return stats


# ------------------------------------------------------------------ one matcher across dialects that share a keyword with another meaning
def shared_keyword_pairs():
    """[(d1, d2, keyword)]: step keywords listed in both dialects with different keyword types, title keywords with different roles"""
    from vlib.refs import DIALECTS, STEP_CATS, TITLE_CATS, step_keyword_type
    out = []
    names = sorted(DIALECTS)
    info = {}
    for d in names:
        m = {}
        for c in STEP_CATS:
            for k in DIALECTS[d][c]:
                m.setdefault(k, ("step", step_keyword_type(d, k)))
        for c in TITLE_CATS:
            for k in DIALECTS[d][c]:
                m.setdefault(k + ":", ("title", "scenario" if c == "scenarioOutline" else c))
        info[d] = m
    for i, d1 in enumerate(names):
        for d2 in names[i + 1:]:
            for k in info[d1]:
                if k in info[d2] and info[d1][k] != info[d2][k] and k != "* ":
                    out.append((d1, d2, k))
    return out


def doc_using(d, k):
    from vlib.refs import DIALECTS
    D = DIALECTS[d]
    head = "# language: %s\n%s: f\n" % (d, D["feature"][0])
    if k.endswith(":") and any(k[:-1] in D[c] for c in ("feature", "rule", "background", "scenario", "scenarioOutline", "examples")):
        kw = k[:-1]
        if kw in D["feature"]:
            return "# language: %s\n%s: f\n" % (d, kw)
        if kw in D["examples"]:
            return head + " %s: o\n  %sx\n  %s: e\n   | a |\n   | 1 |\n" % (D["scenarioOutline"][0], D["given"][-1], kw)
        return head + " %s: t\n" % kw
    return head + " %s: s\n  %sx\n  %sy\n  %sz\n" % (D["scenario"][0], D["given"][-1], k, k)


def unit_shared_keywords(a):
    stats = Stats()
    pairs = shared_keyword_pairs()
    stats.notes["dialect_pairs_sharing_a_keyword_with_another_meaning"] = len(pairs)

    def gen():
        for n, (d1, d2, k) in enumerate(pairs):
            if n % a["nshards"] != a["shard"]:
                continue
            for x, y in ((d1, d2), (d2, d1)):
                # the matcher's configured default is one of the two dialects, the documents select theirs by header
                yield {"sub": "history", "default": x, "names": ["default %s" % x, "%s uses %r" % (y, k)], "items": [[doc_using(y, k), False], [doc_using(x, k), False]], "own_matcher": True}
                yield {"sub": "history", "default": "en", "names": ["%s uses %r" % (x, k), "%s uses %r" % (y, k)], "items": [[doc_using(x, k), False], [doc_using(y, k), False], [doc_using(x, k), False]],
                       "own_matcher": True}
    sweep(stats, gen(), check_history)
    return stats


# ------------------------------------------------------------------ one GherkinEvents for several sources vs a fresh one per source
def stream_out(ev, text):
    out = list(ev.enum({"source": {"uri": "u", "data": text, "mediaType": "text/x.cucumber.gherkin+plain"}}))
    body = [e for e in out if "source" not in e]
    vals = []

    def walk(x):
        if isinstance(x, dict):
            for k, v in x.items():
                if k in ("id", "astNodeId"):
                    vals.append(int(v))
                elif k == "astNodeIds":
                    vals.extend(int(i) for i in v)
                else:
                    walk(v)
        elif isinstance(x, list):
            for v in x:
                walk(v)
    walk(body)
    return shift_ids(body, min(vals)) if vals else body


def check_stream_history(case, stats):
    texts = case["texts"]
    if any(gh.names_existing_path(t) for t in texts):
        stats.label("excluded_known_F1")
        return
    ev = gh.GherkinEvents(gh.GherkinEvents.Options(True, True, True))
    rejected_before = False
    nt = False
    for i, t in enumerate(texts):
        got = stream_out(ev, t)
        want = stream_out(gh.GherkinEvents(gh.GherkinEvents.Options(True, True, True)), t)
        nt = nt or (i > 0 and rejected_before)
        if got != want:
            raise Violation(case, "source #%d through a used GherkinEvents differs from a fresh one: %s" % (i, diff_text(got, want, "reused", "fresh")))
        rejected_before = rejected_before or any("parseError" in e for e in got)
    stats.case(case, nt, sample={"stream": case.get("names") or [t[:40] for t in texts]}, labels=["len=%d" % len(texts)])


def unit_stream_pool(a):
    stats = Stats()
    names = sorted(POOL)

    def gen():
        n = 0
        for k in a["lengths"]:
            for hist in itertools.product(names, repeat=k):
                n += 1
                if n % a["nshards"] != a["shard"]:
                    continue
                if k == 3 and a["sample"] and (n // a["nshards"]) % a["sample"] != a["seed"] % a["sample"]:
                    continue
                yield {"sub": "stream-history", "names": list(hist), "texts": [POOL[h] for h in hist]}
    sweep(stats, gen(), check_stream_history)
    return stats


# ------------------------------------------------------------------ matcher reset at line level (classic and Markdown)
LINES = ["Feature: f", "# Feature: f", "## Scenario: s", "* Given x", "- When y", "Given x", '"""', "```", "````", "  | a |", "| --- |", "`@t` text", "@t", "#language: fr",
         "Fonctionnalité: f", "# Fonctionnalité: f", "* Soit x", "", "prose", "  \"\"\"json", "Scénario: s", "Soit y"]
METHODS = ["match_FeatureLine", "match_RuleLine", "match_ScenarioLine", "match_BackgroundLine", "match_ExamplesLine", "match_StepLine", "match_TableRow", "match_Comment",
           "match_Empty", "match_TagLine", "match_DocStringSeparator", "match_Other", "match_Language"]


def observe(m, line, method):
    t = gh.Token(gh.GherkinLine(line + "\n", 1), {"line": 1})
    try:
        r = getattr(m, method)(t)
    except gh.ParserException as e:
        return ("raises", str(e))
    except Exception as e:  # e.g. the Markdown matcher's match_Comment / match_Empty raise AttributeError on ordinary lines
        return ("raises", type(e).__name__)  # (outside the listed properties); what matters here: reused == fresh
    return (bool(r), getattr(t, "matched_type", None), getattr(t, "matched_keyword", None), getattr(t, "matched_text", None),
            getattr(t, "matched_items", None), t.location.get("column"), getattr(t, "matched_gherkin_dialect", None))


def check_reset(case, stats):
    from gherkin.token_matcher_markdown import GherkinInMarkdownTokenMatcher as MD
    cls = MD if case["matcher"] == "markdown" else gh.TokenMatcher
    m = cls(case["default"])
    for line, method in case["history"]:
        observe(m, line, method)
    m.reset()
    f = cls(case["default"])
    stats.case(case, any(meth in ("match_DocStringSeparator", "match_Language", "match_FeatureLine") for _, meth in case["history"]), sample=case, labels=[case["matcher"]])
    for line, method in case["probes"]:
        a, b = observe(m, line, method), observe(f, line, method)
        if a != b:
            raise Violation(case, "%s matcher after a history and reset(): %s(%r) gives %r, a fresh matcher gives %r" % (case["matcher"], method, line, a, b))


def g_reset(s):
    hist = [[s.choice(LINES), s.choice(METHODS)] for _ in range(s.rng(1, 6))]
    probes = [[s.choice(LINES), s.choice(METHODS)] for _ in range(s.rng(2, 6))]
    return {"sub": "reset", "matcher": s.choice(["markdown", "classic"]), "default": s.choice(["en", "fr"]), "history": hist, "probes": probes}


def unit_reset(a):
    stats = Stats()
    strat = st.binary(min_size=60, max_size=60).map(lambda b: g_reset(Src(b)))
    hyp(stats, strat, check_reset, a["n"], shard_seed(a["seed"], a["shard"], 151))
    return stats


# ------------------------------------------------------------------ concurrent parses under a harness-owned scheduler
class Gate:
    def __init__(self, n):
        self.arrived = [threading.Event() for _ in range(n)]
        self.go = [threading.Event() for _ in range(n)]
        self.done = [threading.Event() for _ in range(n)]


class GatedScanner(gh.TokenScanner):
    def __init__(self, text, gate, idx):
        super().__init__(text)
        self._gate, self._idx = gate, idx

    def read(self):
        g, i = self._gate, self._idx
        g.arrived[i].set()
        if not g.go[i].wait(180):
            raise HarnessError("scheduler never granted parser %d its turn" % i)
        g.go[i].clear()
        return super().read()


def run_schedule(texts, dflts, schedule, formatter=False):
    n = len(texts)
    gate = Gate(n)
    results = [None] * n

    def work(i):
        try:
            results[i] = norm_result(gh.parse(GatedScanner(texts[i], gate, i), dflts[i], builder=gh.TokenFormatterBuilder() if formatter else None))
        except BaseException as e:  # noqa
            results[i] = ("crash", repr(e))
        finally:
            gate.done[i].set()
            gate.arrived[i].set()

    threads = [threading.Thread(target=work, args=(i,), daemon=True) for i in range(n)]
    for t in threads:
        t.start()
    for i in range(n):
        if not gate.arrived[i].wait(180):
            raise HarnessError("parser %d never reached its first read" % i)
    switches = 0
    last = None
    for i in list(schedule) + [j for j in range(n) for _ in range(10000)]:
        if all(d.is_set() for d in gate.done):
            break
        if gate.done[i].is_set():
            continue
        if last is not None and last != i:
            switches += 1
        last = i
        gate.arrived[i].clear()
        gate.go[i].set()
        if not gate.arrived[i].wait(180):
            raise HarnessError("parser %d neither came back for a line nor finished" % i)
    for t in threads:
        t.join(180)
        if t.is_alive():
            raise HarnessError("a parser thread outlived its case")
    return results, switches


SCHED_DOCS = {
    "early-tags-a": ("Feature: a\n @x\n # c\n Scenario: s\n  Given x\n", "en"),
    "early-tags-b": ("Feature: b\n @y\n\n @z\n Scenario Outline: o\n  Given <a>\n @e\n Examples:\n", "en"),
    "doc": ("Feature: f\n Scenario: s\n  Given x\n   \"\"\"\n    a\n   \"\"\"\n", "en"),
    "fr": ("#language: fr\nFonctionnalité: f\n @t\n # c\n Scénario: s\n  Soit x\n", "en"),
    "tags": ("Feature: f\n Scenario Outline: o\n  Given <a>\n @e\n\n Examples:\n  | a |\n", "en"),
    "bad": ("Feature: f\n @a b\n Scenario: s\n  | x |\n", "en"),
    "no": ("Egenskap: f\n Scenario: s\n  Gitt x\n   ```\n   b\n", "no"),
}


def check_schedule(case, stats):
    names = case["docs"]
    texts = [SCHED_DOCS[n][0] if n in SCHED_DOCS else n for n in names]
    dflts = [SCHED_DOCS[n][1] if n in SCHED_DOCS else "en" for n in names]
    if any(gh.names_existing_path(t) for t in texts):
        return
    fmt = bool(case.get("formatter"))  # token-listing parsers (TokenFormatterBuilder) instead of AST-building ones
    solo = [norm_result(gh.parse(t, d, builder=gh.TokenFormatterBuilder())) if fmt else fresh(t, d, False) for t, d in zip(texts, dflts)]
    got, switches = run_schedule(texts, dflts, case["schedule"], formatter=fmt)
    stats.case(case, switches >= 2, sample={"docs": [n[:30] for n in names], "schedule": case["schedule"]}, labels=["parsers=%d" % len(names)])
    for i, (g, s) in enumerate(zip(got, solo)):
        if g != s:
            raise Violation(case, "parser %d interleaved with other parsers (schedule %r) produced a different result than alone: %s" % (i, case["schedule"], diff_text(g, s, "interleaved", "alone")))


def check_nested(case, stats):
    """one thread, two parsers: parser A's scanner, asked for its k-th line, first runs a whole parse of document B (a scanner that
    resolves includes, a logging hook ...); both results equal the solo results - with explicit matchers and with the default one"""
    x, y, k = case["docs"][0], case["docs"][1], case["k"]
    (tx, dx), (ty, dy) = SCHED_DOCS[x], SCHED_DOCS[y]
    stats.case((x, y, k, case["default_matcher"]), True, sample=case)
    inner = []

    class Nesting(gh.TokenScanner):
        def __init__(self, text):
            super().__init__(text)
            self.n = 0

        def read(self):
            self.n += 1
            if self.n == k:
                inner.append(norm_result(parse_default(gh.Parser(), ty, False) if case["default_matcher"] else gh.parse(ty, dy)))
            return super().read()
    if case["default_matcher"]:
        if dx != "en" or dy != "en":
            return
        outer = norm_result(parse_default(gh.Parser(), Nesting(tx), False))
    else:
        outer = norm_result(gh.parse(Nesting(tx), dx))
    if outer != fresh(tx, dx, False):
        raise Violation(case, "document %s parsed while another parse (%s) ran inside its line read #%d differs from parsing it alone: %s" % (x, y, k, diff_text(outer, fresh(tx, dx, False), "nested", "alone")))
    if inner and inner[0] != fresh(ty, dy, False):
        raise Violation(case, "document %s parsed inside line read #%d of another parse (%s) differs from parsing it alone: %s" % (y, k, x, diff_text(inner[0], fresh(ty, dy, False), "nested", "alone")))


def unit_nested(a):
    stats = Stats()
    names = sorted(SCHED_DOCS)
    sweep(stats, ({"sub": "nested", "docs": [x, y], "k": k, "default_matcher": dm} for x in names for y in names for k in range(1, len(SCHED_DOCS[x][0].split("\n")) + 2) for dm in (False, True)), check_nested)
    return stats


def unit_schedules(a):
    stats = Stats()

    def gen():
        n = 0
        names = sorted(SCHED_DOCS)
        for x, y in itertools.combinations(names, 2):
            rx = len(SCHED_DOCS[x][0].split("\n"))
            ry = len(SCHED_DOCS[y][0].split("\n"))
            rx, ry = min(rx, a["maxreads"]), min(ry, a["maxreads"])
            # all interleavings of the first rx reads of x with the first ry reads of y (the rest runs sequentially)
            for pos in itertools.combinations(range(rx + ry), rx):
                n += 1
                if n % a["nshards"] != a["shard"]:
                    continue
                sched = [1] * (rx + ry)
                for p in pos:
                    sched[p] = 0
                yield {"sub": "schedule", "docs": [x, y], "schedule": sched, "formatter": n % 3 == 0}
    sweep(stats, gen(), check_schedule)
    return stats


def g_schedule(s):
    k = s.rng(2, 3)
    docs = [s.choice(sorted(SCHED_DOCS)) if s.int(3) else noisy.g_noisy(s)[0] for _ in range(k)]
    return {"sub": "schedule", "docs": docs, "schedule": [s.int(k) for _ in range(s.rng(4, 40))], "formatter": s.int(3) == 0}


def unit_schedules_sampled(a):
    stats = Stats()
    strat = st.binary(min_size=3500, max_size=3500).map(lambda b: g_schedule(Src(b)))
    hyp(stats, strat, check_schedule, a["n"], shard_seed(a["seed"], a["shard"], 152))
    return stats


# ------------------------------------------------------------------ free-running threads (pre-emptive switching, separate instances)
def check_threads(case, stats):
    """several threads, each with its own Parser/matcher/Compiler, parse and compile at full speed with a tiny switch interval;
    every result must equal the solo result (a module-level scratch buffer or cache shared between instances shows here).
    Detection is probabilistic; a pass proves nothing, a failure is a real difference."""
    texts = case["texts"]
    solo = [gh.parse_and_compile(t) for t in texts]
    old = sys.getswitchinterval()
    errors = []

    def work(k):
        try:
            for rep in range(case["reps"]):
                for i, t in enumerate(texts):
                    j = (i + k) % len(texts)
                    r = gh.parse_and_compile(texts[j])
                    if r != solo[j]:
                        errors.append((k, j, diff_text(r, solo[j], "in a thread", "alone")))
                        return
        except BaseException as e:  # noqa
            errors.append((k, -1, repr(e)))
    sys.setswitchinterval(1e-6)
    try:
        threads = [threading.Thread(target=work, args=(k,), daemon=True) for k in range(case["threads"])]
        for t in threads:
            t.start()
        for t in threads:
            t.join(300)
    finally:
        sys.setswitchinterval(old)
    stats.case(("threads", case["threads"], case["reps"]), True, sample={"threads": case["threads"], "documents": len(texts), "reps": case["reps"]})
    if errors:
        k, j, d = errors[0]
        raise Violation(case, "thread %d parsing document #%d concurrently with other threads (separate instances) got another result than alone: %s" % (k, j, d))


RACE_SCRIPT = r"""
import sys, json, threading
sys.path.insert(0, sys.argv[1]); sys.path.insert(0, sys.argv[2])
from vlib import gh
from vlib.refs import DIALECTS, step_keywords, step_keyword_type
sys.setswitchinterval(1e-6)
import time, os
LIB = os.path.join(os.path.realpath(sys.argv[1]), "gherkin") + os.sep
def _local(frame, event, arg):
    if event == "line":
        time.sleep(0)          # give the other threads a chance after every line executed inside the library
    return _local
def _tracer(frame, event, arg):
    if os.path.realpath(frame.f_code.co_filename).startswith(LIB):
        return _local
    return None
threading.settrace(_tracer)
bad = []
names = sorted(DIALECTS)
k0 = int(sys.argv[3])
for d in names[k0::4]:
    D = DIALECTS[d]
    kws = []
    for k, _ in step_keywords(d):
        if k not in kws and k != "* ":
            kws.append(k)
    text = "%s: f\n %s: s\n" % (D["feature"][0], D["scenario"][0]) + "".join("  %sx\n" % k for k in kws)
    want = []
    for k in kws:
        line = k + "x"
        m = next(x for x, _ in step_keywords(d) if line.startswith(x))
        want.append(step_keyword_type(d, m))
    barrier = threading.Barrier(8)
    out = [None] * 8
    def work(i):
        barrier.wait()
        try:
            m = gh.TokenMatcher(d)   # the first use of this dialect in this process, by 8 threads at once (switching after every line)
            sys.settrace(None)       # the rest of this thread's work runs untraced
            r = gh.parse(text, d, matcher=m)
            out[i] = [s["keywordType"] for s in r[1]["feature"]["children"][0]["scenario"]["steps"]] if r[0] == "ok" else r[1][:1]
        except BaseException as e:
            out[i] = repr(e)
    ts = [threading.Thread(target=work, args=(i,)) for i in range(8)]
    [t.start() for t in ts]; [t.join() for t in ts]
    for i, o in enumerate(out):
        if o != want:
            bad.append([d, i, o if isinstance(o, str) else o[:6], want[:6]])
            break
print(json.dumps(bad))
"""


def check_first_use_race(case, stats):
    """eight threads make the very first use of a dialect in a fresh process at the same moment (per dialect, four fresh processes)"""
    r = subprocess.run([sys.executable, "-X", "utf8", "-c", RACE_SCRIPT, os.path.join(REPO, "python"), VERIF, str(case["slice"])], capture_output=True, text=True, timeout=600,
                       cwd=os.getcwd(), env=dict(os.environ, PYTHONDONTWRITEBYTECODE="1"))
    if r.returncode != 0:
        raise HarnessError("first-use race subprocess failed: " + r.stderr[-600:])
    bad = json.loads(r.stdout.strip().splitlines()[-1])
    stats.case(("first-use", case["slice"], case.get("rep", 0)), True, sample={"dialects": 20, "threads": 8})
    if bad:
        d, i, got, want = bad[0]
        raise Violation(case, "dialect %s used for the first time in a process by 8 threads at once: thread %d got step keyword types %r, expected %r" % (d, i, got, want))


def unit_threads(a):
    stats = Stats()
    sweep(stats, [{"sub": "first-use-race", "slice": k, "rep": rep} for rep in range(a.get("race_reps", 1)) for k in range(4)], check_first_use_race)
    texts = [POOL["outline"], POOL["doc_q"], POOL["doc_b"], POOL["fr_hdr"], POOL["pirate_hdr_doc"], POOL["ragged"], POOL["cap"],
             "Feature: t\n Scenario: s\n  Given x\n" + "".join("   | c%d | \\| %d | é |\n" % (i, i) for i in range(12)),
             "@a @b\nFeature: t\n @c\n Scenario Outline: o <x>\n  Given <x>\n   | <x> | v |\n @e @f\n Examples:\n   | x |\n" + "".join("   | %d |\n" % i for i in range(8))]
    sweep(stats, [{"sub": "threads", "texts": texts, "threads": 4, "reps": a["reps"]}], check_threads)
    return stats


# ------------------------------------------------------------------ determinism across processes / hash seeds
DIGEST_SCRIPT = r"""
import sys, json, hashlib
sys.path.insert(0, sys.argv[1]); sys.path.insert(0, sys.argv[2])
from vlib import gh, noisy
from checks.c15 import determinism_texts
texts = determinism_texts()
order = sys.argv[3]
keys = sorted(texts)
if order == "reverse":
    keys = keys[::-1]
elif order == "interleaved":
    keys = keys[::2] + keys[1::2][::-1]
out = {}
for k in keys:
    h = hashlib.sha256()
    for _ in range(2):
        r = gh.parse_and_compile(texts[k])
        h.update(json.dumps(r, sort_keys=False, ensure_ascii=True, default=repr).encode())
    out[k] = h.hexdigest()[:24]
print(json.dumps(out))
"""


def determinism_texts():
    t = {"corpus:" + n: x for n, x in noisy.corpus_texts()}
    t.update({"pool:" + k: v for k, v in POOL.items()})
    for name in ("en_au", "en-au", "en_lol", "en-lol", "en_Scouse", "en-Scouse", "sr_Cyrl", "sr-Cyrl", "zh_CN", "zh-CN", "EN", "en", "Fr", "fr", "xx", "en-old", "en_old"):
        t["lang:" + name] = "#language: %s\nFeature: f\n" % name
    return t


def check_determinism(case, stats):
    results = {}
    for run in case["runs"]:
        hs, order = run[0], run[1]
        flavour = run[2] if len(run) > 2 else "plain"
        env = dict(os.environ, PYTHONHASHSEED=str(hs), PYTHONDONTWRITEBYTECODE="1")
        flags = []
        if flavour == "optimised":
            flags = ["-O"]                      # assertions stripped
        elif flavour == "c-locale":
            env.update(LC_ALL="C", LANG="C", PYTHONUTF8="0", PYTHONCOERCECLOCALE="0", PYTHONIOENCODING="utf-8")   # a non-UTF-8 locale
        r = subprocess.run([sys.executable] + flags + ["-c", DIGEST_SCRIPT, os.path.join(REPO, "python"), VERIF, order], capture_output=True, text=True, env=env, timeout=600,
                           cwd=os.getcwd())
        if r.returncode != 0:
            if flavour != "plain" and results:
                # the very same script already succeeded in a plain interpreter: the flavour is what breaks the library
                raise Violation(case, "the pipeline that works in a plain interpreter fails in a %s interpreter: %s" % (flavour, r.stderr[-600:]))
            raise HarnessError("determinism subprocess (%s) failed: %s" % (flavour, r.stderr[-800:]))
        results[(hs, order, flavour)] = json.loads(r.stdout.strip().splitlines()[-1])
        stats.case(("run", hs, order, flavour), True, sample={"PYTHONHASHSEED": hs, "order": order, "interpreter": flavour, "documents": len(results[(hs, order, flavour)])})
    base_key = (case["runs"][0][0], case["runs"][0][1], case["runs"][0][2] if len(case["runs"][0]) > 2 else "plain")
    base = results[base_key]
    for key, res in results.items():
        for k in base:
            if res.get(k) != base[k]:
                raise Violation(case, "parse+compile result of %r differs between a process (PYTHONHASHSEED=%s, documents in %s order, %s interpreter) and one (PYTHONHASHSEED=%s, %s order, %s interpreter)" % (
                    k, base_key[0], base_key[1], base_key[2], key[0], key[1], key[2]))


def check_twice(case, stats):
    """freshly constructed default instances, twice in the same process: results (ids included, no normalisation) must be equal"""
    text = case["text"]
    if gh.names_existing_path(text):
        return
    stats.case(text, True, sample={"name": case.get("name")})

    def once():
        p, c = gh.Parser(), gh.Compiler()
        try:
            d = p.parse(text)
        except gh.CompositeParserException as e:
            return ("err", [gh.err_tuple(x) for x in e.errors])
        return ("ok", d, c.compile(dict(d, uri="u")))
    a_, b_ = once(), once()
    if a_ != b_:
        raise Violation(case, "the same document processed twice with freshly constructed Parser()/Compiler() gives different results: %s" % diff_text(a_, b_, "first", "second"))


def unit_determinism(a):
    stats = Stats()
    sweep(stats, [{"sub": "twice", "name": k, "text": v} for k, v in sorted(POOL.items())], check_twice)
    sweep(stats, [{"sub": "determinism", "runs": [[0, "forward"], [1, "reverse"], [2, "interleaved"], [0, "forward", "optimised"], [0, "reverse", "c-locale"]]}], check_determinism)
    return stats


def check_fs_history(case, stats):
    """the only outside state a parse looks at is the file system (finding F1 - a source string naming a file is read from it): a parse
    must see the file system as it is NOW, not as it was when the same string was parsed earlier in the process"""
    name, content, dflt = case["name"], case["content"], case.get("default", "en")
    if os.path.exists(name):
        return
    stats.case((name, content), True, sample={"name": name, "content": content[:80]})
    parser = gh.Parser() if case.get("one_parser") else None
    run = lambda src: norm_result(gh.parse(src, dflt, parser=parser))
    import io

    class TextScanner(gh.TokenScanner):
        """hands the parser the lines of a text without ever asking the file system (same tokens as TokenScanner.read makes)"""
        def __init__(self, text):
            super().__init__("")
            self.io, self.n = io.StringIO(text), 0

        def read(self):
            self.n += 1
            line = self.io.readline()
            return gh.Token(gh.GherkinLine(line, self.n) if line else line, {"line": self.n})
    as_stream = lambda t: norm_result(gh.parse(TextScanner(t), dflt))
    # does a source string naming an existing file get read from it on this tree (finding F1)?  probed with a string never parsed before
    probe = name + ".probe"
    with open(probe, "w", encoding="utf8") as f:
        f.write("Feature: probe\n")
    try:
        r = norm_result(gh.parse(probe, dflt))
    finally:
        os.remove(probe)
    reads_files = r == as_stream("Feature: probe\n")
    if not reads_files and r != as_stream(probe):
        stats.label("probe_inconclusive")
        return
    want_text = as_stream(name)
    want_file = as_stream(content) if reads_files else want_text
    as_text = run(name)
    try:
        with open(name, "w", encoding="utf8", newline="") as f:
            f.write(content)
        with_file = run(name)
        with_file2 = run(name)
    finally:
        os.remove(name)
    gone = run(name)
    if as_text != want_text:
        raise Violation(case, "source string %r (no such file) parses differently from the same text handed over as a stream: %s" % (name, diff_text(as_text, want_text, "string", "stream")))
    if with_file != want_file or with_file2 != want_file:
        raise Violation(case, "source string %r parsed once before a file of that name existed; parsed again while the file exists the result is not what a never-parsed name gives (%s): %s" % (
            name, "the file's content" if reads_files else "the text itself", diff_text(with_file, want_file, "got", "expected")))
    if gone != want_text:
        raise Violation(case, "source string %r parsed while a file of that name existed and again after it was removed: %s" % (name, diff_text(gone, want_text, "after removal", "as text")))


def check_long_history(case, stats):
    """long histories through ONE parser + ONE matcher (+ ONE compiler): many different dialects by header, then the early ones again; the same
    documents as feature FILES through scanner objects made one after the other (the previous scanner is dropped only once the next exists)"""
    from vlib.refs import DIALECTS
    names = sorted(DIALECTS)
    k = case["dialects"]
    order = names[case["start"]:case["start"] + k] + names[case["start"]:case["start"] + 5] + ["en"] + names[case["start"] + k - 3:case["start"] + k]
    parser, matcher = gh.Parser(), gh.TokenMatcher(case["default"])
    stats.case((case["start"], k, case["default"], case["files"]), True, sample=case)
    keep = None
    # the matcher's own dialect comes round again and again, WITHOUT a header (the configured default is in force)
    order = [x for i, d in enumerate(order) for x in ([d, case["default"]] if i % 3 == 2 else [d])]
    for i, d in enumerate(order):
        D = DIALECTS[d]
        # where the dialect has step keywords without a trailing blank, use one (text glued to the keyword, no blank in the whole line)
        glued = [k_ for c_ in ("given", "when", "then", "and", "but") for k_ in D[c_] if not k_.endswith(" ")]
        k1 = glued[i % len(glued)] if glued else D["given"][-1]
        text = "# language: %s\n%s: f%d\n %s: s\n  %sx\n  %sy\n" % (d, D["feature"][0], i, D["scenario"][-1], k1, D["then"][-1])
        if d == case["default"] and (d != "en" or i % 2):
            text = text.split("\n", 1)[1]
        want = fresh(text, case["default"], False)
        if case["files"]:
            path = "hist-%d-%d.feature" % (os.getpid(), i)
            with open(path, "w", encoding="utf8") as f:
                f.write(text)
            try:
                keep = gh.TokenScanner(path)   # the plain loop "scanner = TokenScanner(p); parser.parse(scanner)": the previous scanner is dropped here
                got = norm_result(gh.parse(keep, parser=parser, matcher=matcher))
            finally:
                os.remove(path)
        else:
            got = norm_result(gh.parse(text, parser=parser, matcher=matcher))
        if got != want:
            raise Violation(case, "document #%d (dialect %s) of a history of %d documents in %d dialects%s differs from fresh instances: %s" % (
                i, d, len(order), k, " read from files" if case["files"] else "", diff_text(got, want, "history", "fresh")))
    del keep


def unit_long_history(a):
    stats = Stats()
    sweep(stats, [{"sub": "long-history", "start": st_, "dialects": k, "default": dflt, "files": files}
                  for st_ in (0, 30) for k in (8, 16, 17, 18, 33, 40) for dflt in ("en", "fr") for files in (False, True)] +
          [{"sub": "long-history", "start": 5, "dialects": 9, "default": dflt, "files": False} for dflt in ("ja", "zh-CN", "zh-TW", "ro", "ml", "mr", "em", "fr", "ko", "th")], check_long_history)
    return stats


def unit_fs(a):
    stats = Stats()
    names = ["x.feature", "dir-less name.feature", "Feature: f", "ünï.feature", "a"]
    contents = [POOL[k] for k in sorted(POOL)[:6]] + ["Feature: from file\n Scenario: s\n  Given x\n", ""]
    sweep(stats, [{"sub": "fs-history", "name": "%s%d" % (n, i), "content": c, "one_parser": op} for n in names for i, c in enumerate(contents) for op in (False, True)], check_fs_history)
    return stats


def replay(case, stats):
    if case["sub"] == "fs-history":
        return check_fs_history(case, stats)
    if case["sub"] == "nested":
        return check_nested(case, stats)
    if case["sub"] == "long-history":
        return check_long_history(case, stats)
    if case["sub"] == "collisions":
        from . import c09
        return c09.check_collisions(case, stats)
    return {"history": check_history, "stream-history": check_stream_history, "reset": check_reset, "schedule": check_schedule, "determinism": check_determinism, "twice": check_twice, "threads": check_threads, "first-use-race": check_first_use_race}[case["sub"]](case, stats)


def run(ctx):
    q = ctx.quick
    ns = 16
    ctx.units("determinism-hashseeds", unit_determinism, [{}])
    ctx.units("pool-pairs-triples", unit_pool, [{"lengths": [2, 3], "sample": 3 if q else 0, "seed": ctx.seed, "shard": i, "nshards": ns} for i in range(ns)], procs=ns)
    ctx.units("stream-pool-pairs-triples", unit_stream_pool, [{"lengths": [2, 3], "sample": 0, "seed": ctx.seed, "shard": i, "nshards": ns} for i in range(ns)], procs=ns)
    ctx.units("shared-keyword-dialect-pairs", unit_shared_keywords, [{"shard": i, "nshards": ns} for i in range(ns)], procs=ns)
    from . import c09
    ctx.units("header-name-collisions-one-compiler", c09.unit_collisions, [{}])
    ctx.units("long-histories-many-dialects-and-files", unit_long_history, [{}])
    ctx.units("file-appears-and-disappears", unit_fs, [{}])
    ctx.units("sampled-histories", unit_sampled, [{"n": 180 if q else 2000, "seed": ctx.seed, "shard": i} for i in range(8 if q else 16)], procs=16)
    ctx.units("matcher-reset", unit_reset, [{"n": 1500 if q else 8000, "seed": ctx.seed, "shard": i} for i in range(8 if q else 16)], procs=16)
    ctx.units("free-running-threads", unit_threads, [{"reps": 40 if q else 400, "race_reps": 1 if q else 6}])
    ctx.units("nested-parses-one-thread", unit_nested, [{}])
    ctx.units("interleavings-exhaustive", unit_schedules, [{"maxreads": 5 if q else 7, "shard": i, "nshards": ns} for i in range(ns)], procs=ns)
    ctx.units("interleavings-sampled", unit_schedules_sampled, [{"n": 90 if q else 800, "seed": ctx.seed, "shard": i} for i in range(8 if q else 16)], procs=16)
    ctx.exhaustive = False
    ctx.extra["exhaustive_part"] = ("all ordered pairs%s of %d state-perturbing documents x 3 matcher defaults x 3 stop-mode patterns; all interleavings of the first %d reads of every pair of %d small documents" % (
        " (and a 1/3 sample of triples)" if q else " and triples", len(POOL), 5 if q else 7, len(SCHED_DOCS)))
    ctx.rule = ("histories: documents fed to ONE Parser + ONE TokenMatcher + ONE Compiler (pool: dialect switch by header, unterminated doc strings of both kinds, 11-error cap, pending "
                "tag run, unknown language, ragged table, deep rule stack, stop-mode failures...) - each result must equal fresh instances modulo the id offset, compile must not "
                "modify its input, the language table must stay unchanged; matcher level: any sequence of match_* calls then reset() == fresh matcher (classic and Markdown); "
                "schedules: 2-3 parsers with gated scanners, one thread runnable at a time, interleaved at every line read - each result must equal the solo result; determinism: "
                "per-document digests of parse+compile over corpus + pool + language-header spellings equal across processes with PYTHONHASHSEED 0/1/2 that process the documents in "
                "forward / reverse / interleaved order (catches process-global caches poisoned by an earlier document). Non-trivial = a predecessor left non-default state / >=2 context switches.")
    ctx.assumptions += ["interleavings are at token-read granularity of separate instances under the GIL (data races of a free-threaded build are not modelled)"]
