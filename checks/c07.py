"""C07 - pickle steps = in-scope background steps followed by the scenario's own steps."""
from __future__ import annotations

from hypothesis import strategies as st

from vlib.astgen import ast_features, st_ast
from vlib import gh
from vlib.common import Stats, Violation, hyp, shard_seed
from vlib.refcompile import proj_c07, ref_compile

from . import pickles_common as pc

WHAT = "pickle steps (astNodeIds/text/argument)"


def scoping_invariant(case, doc, real):
    """independent of the reference: a rule's background steps only in pickles of that rule's scenarios;
    feature background steps first, then rule background steps, then own steps; none when no own steps"""
    f = doc.get("feature")
    if not f:
        return
    fbg = []
    owner = {}  # scenario id -> (feature bg step ids, rule bg step ids, own step ids)
    all_bg = {}
    for ch in f["children"]:
        if "background" in ch:
            fbg += [s["id"] for s in ch["background"]["steps"]]
        elif "scenario" in ch:
            sc = ch["scenario"]
            owner[sc["id"]] = (list(fbg), [], [s["id"] for s in sc["steps"]])
        else:
            rbg = []
            for c2 in ch["rule"]["children"]:
                if "background" in c2:
                    rbg += [s["id"] for s in c2["background"]["steps"]]
                    for s in c2["background"]["steps"]:
                        all_bg[s["id"]] = ch["rule"]["id"]
                else:
                    sc = c2["scenario"]
                    owner[sc["id"]] = (list(fbg), list(rbg), [s["id"] for s in sc["steps"]])
    for p in real:
        a, b, own = owner[p["astNodeIds"][0]]
        got = [s["astNodeIds"][0] for s in p["steps"]]
        want = (a + b + own) if own else []
        if got != want:
            raise Violation(case, "pickle of scenario %s has steps from AST steps %r, scoping demands %r" % (p["astNodeIds"][0], got, want))
        for s in p["steps"]:
            n = s["astNodeIds"]
            if n[0] in own:
                if n[1:] != p["astNodeIds"][1:]:
                    raise Violation(case, "own step %r does not point to the example row of its pickle %r" % (n, p["astNodeIds"]))
            elif len(n) != 1:
                raise Violation(case, "background step carries a row reference: %r" % (n,))


def check_ast(case, stats):
    doc, nid = case["doc"], case["next_id"]
    ref = ref_compile(doc, nid)
    lab = ast_features(doc)
    nontrivial = lab["fbg"] and lab["rules"] >= 2 and lab["rule_bgs"] >= 1
    stats.case(case, nontrivial, sample=case, labels=[
        l for l, c in [("feature-bg", lab["fbg"]), ("rules>=2", lab["rules"] >= 2), ("rule-bg", lab["rule_bgs"]),
                       ("stepless", lab["stepless"]), ("args", lab["args"]), ("outline-in-rule", lab["outline_in_rule"])] if c])
    real = pc.real_compile(doc, nid)
    pc.compare(case, real, ref, proj_c07, WHAT)
    scoping_invariant(case, doc, real)


BIAS = dict(p_bg=0.85, p_rule_bg=0.7, max_rules=3, max_scenarios=2, p_arg=0.6,
            content=st.sampled_from(["", "c", "<a>\n<b>", "l1\n\n  l3 ", "\n"]),
            cell=st.sampled_from(["x", "", "<a>", " ", "a|b", "\n", "<b> <a>"]))


def unit_ast(a):
    stats = Stats()
    hyp(stats, st_ast(**BIAS).map(lambda c: dict(c, sub="ast")), check_ast, a["n"], shard_seed(a["seed"], a["shard"], 7))
    return stats


def unit_reuse(a):
    return pc.unit_reuse(a, st_ast(**BIAS), proj_c07, WHAT, 67)


from vlib.common import diff_text  # noqa: E402


def check_shared_compiler(case, stats):
    """ONE compiler used by several threads at once on different documents (ids aside, each result == the solo result)"""
    import sys
    import threading
    from vlib.refcompile import proj_c06, proj_c08
    docs = [d for _, d, _ in pc.golden_docs()][:12]
    solo = [gh_compile_proj(gh.Compiler(), d) for d in docs]
    comp = gh.Compiler()
    errors = []

    def work(k):
        try:
            for rep in range(case["reps"]):
                for i in range(len(docs)):
                    j = (i + k * 3) % len(docs)
                    if gh_compile_proj(comp, docs[j]) != solo[j]:
                        errors.append(j)
                        return
        except BaseException as e:  # noqa
            errors.append(repr(e))
    old = sys.getswitchinterval()
    sys.setswitchinterval(1e-6)
    try:
        ts = [threading.Thread(target=work, args=(k,), daemon=True) for k in range(4)]
        for t in ts:
            t.start()
        for t in ts:
            t.join(300)
    finally:
        sys.setswitchinterval(old)
    stats.case(("shared-compiler", case["reps"]), True, sample=case)
    if errors:
        raise Violation(case, "one Compiler shared by 4 threads: document #%r compiled to other steps / tags / names than alone" % (errors[0],))
    # the same question with the schedule owned by the harness: thread A is held inside its k-th id request (the one shared object the
    # compiler documents), thread B compiles a whole other document with the same Compiler, A continues.
    small = [gh.parse(t)[1] for t in (
        "Feature: one\n  Background:\n    Given bg\n  Scenario: s\n    Given a\n    And b\n    But c\n  Scenario: s2\n    * d\n    And e\n",
        "@f\nFeature: two\n  @o\n  Scenario Outline: o <x>\n    When <x>\n    And d\n    | <x> |\n  @e\n  Examples:\n    | x |\n    | 1 |\n    | 2 |\n",
        "Feature: three\n  Rule: r\n    Background:\n      Then rb\n    @s\n    Scenario: in rule\n      And first is a conjunction\n      When w\n      \"\"\"\n      doc\n      \"\"\"\n")]
    for d in small:
        d["uri"] = "small.feature"
    gdocs = small + docs[:6]
    gsolo = [gh_compile_proj(gh.Compiler(), d) for d in gdocs]
    for i in range(len(gdocs)):
        total = _count_ids(gdocs[i])
        points = list(range(1, min(total, 14) + 1)) + [total // 2, total]
        for j in range(len(gdocs)):
            if i == j and i >= 3:
                continue
            for k in sorted(set(p for p in points if p >= 1)):
                ra, rb = _gated_pair(gdocs[i], gdocs[j], k)
                stats.case(("gated", i, j, k), True)
                for who, r, want, n in (("held", ra, gsolo[i], i), ("other", rb, gsolo[j], j)):
                    if isinstance(r, BaseException):
                        raise Violation(dict(case, gated=[i, j, k]), "one Compiler, thread A held in its id request #%d while thread B compiles another document: the %s thread failed with %r" % (k, who, r))
                    if r != want:
                        raise Violation(dict(case, gated=[i, j, k]), "one Compiler, thread A (document #%d) held in its id request #%d while thread B compiles document #%d: the %s thread's pickles differ from compiling its document alone: %s" % (
                            i, k, j, who, diff_text(r, want, "shared", "alone")))


def _count_ids(doc):
    import json

    class C(gh.IdGenerator):
        n = 0

        def get_next_id(self):
            C.n += 1
            return super().get_next_id()
    gh.Compiler(C()).compile(json.loads(json.dumps(doc)))
    return C.n


def _gated_pair(da, db, k):
    import threading
    inside, bdone = threading.Event(), threading.Event()
    lock = threading.Lock()

    class Gated(gh.IdGenerator):
        def __init__(self):
            super().__init__()
            self.na = 0

        def get_next_id(self):
            if threading.current_thread().name == "verif-A":
                self.na += 1
                if self.na == k:
                    inside.set()
                    bdone.wait(3)
            with lock:
                return super().get_next_id()
    comp = gh.Compiler(Gated())
    res = {}

    def a():
        try:
            res["a"] = gh_compile_proj(comp, da)
        except BaseException as e:  # noqa
            res["a"] = e
        finally:
            inside.set()

    def b():
        inside.wait(10)
        try:
            res["b"] = gh_compile_proj(comp, db)
        except BaseException as e:  # noqa
            res["b"] = e
        finally:
            bdone.set()
    ta = threading.Thread(target=a, name="verif-A", daemon=True)
    tb = threading.Thread(target=b, name="verif-B", daemon=True)
    ta.start(); tb.start(); ta.join(60); tb.join(60)
    return res.get("a", RuntimeError("thread A did not finish")), res.get("b", RuntimeError("thread B did not finish"))


def gh_compile_proj(comp, doc):
    import json
    from vlib.refcompile import proj_c06, proj_c08, proj_c10
    pk = comp.compile(json.loads(json.dumps(doc)))
    return (proj_c07(pk), proj_c06(pk), proj_c08(pk), proj_c10(pk))


def unit_shared(a):
    from vlib.common import sweep
    stats = Stats()
    sweep(stats, [{"sub": "shared-compiler", "reps": a["reps"]}], check_shared_compiler)
    return stats


def unit_golden(a):
    return pc.unit_golden(proj_c07, WHAT)


def unit_modes(a):
    return pc.unit_modes(proj_c07, WHAT)


def replay(case, stats):
    if case["sub"] == "modes":
        return pc.check_modes(case, stats, proj_c07, WHAT)
    if case["sub"] == "golden":
        return pc.replay_golden(case, proj_c07, WHAT)
    if case["sub"] in ("text", "rawtext"):
        from . import textdocs
        return textdocs.check_text(case, stats, "C07")
    if case["sub"] == "shared-compiler":
        return check_shared_compiler(case, stats)
    if case["sub"] == "reuse":
        return pc.check_reuse(case, stats, proj_c07, WHAT)
    return check_ast(case, stats)


def run(ctx):
    pc.calibrate()
    q = ctx.quick
    ctx.units("golden", unit_golden, [{}])
    ctx.units("interpreter-modes", unit_modes, [{}])
    ctx.units("ast-hypothesis", unit_ast, [{"n": 1500 if q else 20000, "seed": ctx.seed, "shard": i} for i in range(8 if q else 16)], procs=16)
    ctx.units("compiler-reuse", unit_reuse, [{"n": 450 if q else 4000, "seed": ctx.seed, "shard": i} for i in range(8 if q else 16)], procs=16)
    from . import textdocs
    textdocs.run_text(ctx, "C07")
    ctx.rule = ("ASTs biased to backgrounds at feature and rule level (0..3 steps), up to 3 rules, every argument kind incl. empty "
                "doc string and 1x1 table, plus parser-produced documents; real step lists compared with the reference and with "
                "an independent scoping invariant; non-trivial = feature background and >=2 rules of which >=1 has its own "
                "background; distinct = distinct AST / text.")
    ctx.assumptions += ["reference compiler vlib/refcompile.py (calibrated on the golden pickles on this run)"]
