"""C12 - table cells are split and unescaped as documented; tables are rectangular."""
from __future__ import annotations

import itertools

from hypothesis import strategies as st

from vlib import gh
from vlib.common import Stats, Violation, hyp, shard_seed, sweep
from vlib.refs import BLANK_CHARS, escape_cell, is_blank, ref_row, split_units, trim

ALPHABET = "|\\n x#"
PREFIX = "Feature: f\n Scenario: s\n  Given x\n"
RAGGED = "inconsistent cell count within the table"


def nontrivial_row(row: str) -> bool:
    units = [u for u, _ in split_units(trim(row))]
    for i, u in enumerate(units):
        if u.startswith("\\"):
            if i + 1 == len(units) or units[i + 1] == "|" or (i > 0 and units[i - 1] == "|"):
                return True
            if u == "\\n" and ((i > 0 and len(units[i - 1]) == 1 and is_blank(units[i - 1])) or
                               (i + 1 < len(units) and len(units[i + 1]) == 1 and is_blank(units[i + 1]))):
                return True
    return False


def check_row(case, stats):
    row = case["row"]
    exp = ref_row(row + "\n")
    got = [(c["text"], c["column"]) for c in gh.GherkinLine(row + "\n", 1).table_cells]
    stats.case(row, nontrivial_row(row), sample=case, labels=["cells=%d" % min(len(exp), 4)])
    if got != exp:
        raise Violation(case, "GherkinLine.table_cells(%r) = %r, documented splitting gives %r" % (row, got, exp))
    if trim(row).startswith("|"):
        # the same through the matcher: items of the matched row token
        tok = gh.Token(gh.GherkinLine(row + "\n", 1), {"line": 1})
        if not gh.TokenMatcher("en").match_TableRow(tok):
            raise Violation(case, "row %r is not matched as a table row" % row)
        items = [(c["text"], c["column"]) for c in tok.matched_items]
        if items != exp:
            raise Violation(case, "matched items of row %r are %r, expected %r" % (row, items, exp))
    if case.get("doc") and trim(row).startswith("|"):
        r = gh.parse(PREFIX + row + "\n")
        if r[0] != "ok":
            raise Violation(case, "single-row data table %r rejected: %r" % (row, r[1]))
        steps = r[1]["feature"]["children"][0]["scenario"]["steps"]
        if len(steps) != 1 or "dataTable" not in steps[0]:
            raise Violation(case, "row %r did not become the step's data table: %r" % (row, steps))
        rows = steps[0]["dataTable"]["rows"]
        gotd = [[(c["value"], c["location"]["line"], c["location"]["column"]) for c in rw["cells"]] for rw in rows]
        expd = [[(t, 4, c) for t, c in exp]]
        if gotd != expd:
            raise Violation(case, "data table cells of %r in the AST = %r, expected %r" % (row, gotd, expd))


def unit_rows(a):
    stats = Stats()

    def gen():
        n = 0
        for L in range(0, a["maxlen"] + 1):
            for tup in itertools.product(ALPHABET, repeat=L):
                n += 1
                if n % a["nshards"] == a["shard"]:
                    yield {"sub": "row", "row": "".join(tup), "doc": L <= a["doclen"]}
    sweep(stats, gen(), check_row)
    return stats


def unit_escape_pairs(a):
    """a backslash followed by ANY character: only n, | and the backslash itself mean something"""
    stats = Stats()
    chars = [chr(i) for i in range(1, 0x250) if chr(i) not in "\n\r"] + list("\u2028\u3000\uff5c\uff3c\U0001F600")
    # rows that mean something in OTHER table syntaxes (Markdown separator rows, reST borders) are plain rows here
    sweep(stats, ({"sub": "row", "row": r, "doc": True} for r in ["| - |", "| --- | --- |", "| :-: |", "|-|", "| - | x |", "|---|---|", "| -- | :-: |", "| :-- | --: |", "| = | = |", "|===|", "| + | + |", "|:|",
                                                                 "| - | - | - |", "| -|- |", "|--", "| --- |---",
                                                                 # markup that means a line break / an entity elsewhere is plain text in a cell
                                                                 "| caf\\u00e9 |", "| a\\u0020 |", "| \\u007Cb | c |", "| \\x41 | \\101 | \\N{DASH} |", "| \\U0001F600 |", "| {\"name\": \"caf\\u00e9\"} |", "| a<br>b |", "| <br/> |", "| x <BR /> y | <br> |", "| a<br>0 |", "| &lt;br&gt; | &#124; | &nbsp; |", "| <p>x</p> |", "| \\<br> |"]), check_row)
    sweep(stats, ({"sub": "row", "row": ctxt % ("\\" + c), "doc": True} for c in chars for ctxt in ("| %s |", "|%s|", "| C:%semp | b |", "| a%s", "| \\%s |")), check_row)
    return stats


def unit_long_rows(a):
    """cells with many escapes / long rows (a bound on the number of escapes handled per cell would show here)"""
    stats = Stats()
    units = ["\\n", "\\|", "\\\\", "\\x", "\\ ", "ab", " \\n "]

    def gen():
        for n in a["lengths"]:
            for u in units:
                yield {"sub": "row", "row": "| " + u * n + " |", "doc": n <= 300}
                yield {"sub": "row", "row": "|" + u * n + "|" + u * (n // 2) + " | z |", "doc": False}
            yield {"sub": "row", "row": "|" + "".join(units[i % len(units)] for i in range(n)) + "|", "doc": n <= 300}
            for pad in ("\xa0", "\u3000", "\u2003 ", "\x85", "\x1f", " \t"):
                yield {"sub": "row", "row": "|" + pad + "c" * n + pad + "|" + pad + "d\\x" * (n // 4) + pad + "|", "doc": n in (255, 1000, 1500)}
            yield {"sub": "row", "row": "|" + " c%d |" * n % tuple(range(n)) if n < 500 else "|" + " c |" * n, "doc": False}
    sweep(stats, gen(), check_row)
    return stats


# ------------------------------------------------------------------ unicode rows
ROW_CHARS = st.one_of(
    st.sampled_from(["\uf8ff", "\uf8fe", "\ue001", "\uffff", "\x01", "\x1f", "\x7f", "\U0010ffff", "\U000f0000", "\ufdd0", "\ufdd0", "\ufdd1", "\u202a", "\u202b", "\u202c", "\u202d", "\u202e", "\u2066", "\u2069", "\u200e", "\u200f", "\u061c", "\ue000", "\x00", "\ufffe",
                     "|", "|", "\\", "\\", "n", " ", " ", "\t", "\xa0", "　", "\x0b", "\x0c", "\r", "x", "é",
                     "\U0001F600", "\x85", " ", "\x1c", " ", "​", "﻿"]),
    st.characters(blacklist_categories=["Cs"], blacklist_characters="\n"),
)
st_row = st.lists(ROW_CHARS, max_size=14).map("".join).map(lambda r: {"sub": "row", "row": r, "doc": True})


def unit_unirows(a):
    stats = Stats()
    hyp(stats, st_row, check_row, a["n"], shard_seed(a["seed"], a["shard"], 1))
    return stats


# ------------------------------------------------------------------ round trip
CELL_CHARS = st.one_of(
    st.sampled_from(["\ufdd0", "\ufdd1", "\u202a", "\u202e", "\u202c", "\u200f", "\ue000", "|", "\\", "n", "\n", " ", "\t", "x", "\\n", "\\|", "\\\\", "é", "\U0001F600", "\xa0", "<", ">", "\r"]),
    st.characters(blacklist_categories=["Cs"]),
)


def _no_blank_ends(s):
    return s == "" or (not is_blank(s[0]) and not is_blank(s[-1]))


st_cell = st.lists(CELL_CHARS, max_size=6).map("".join).filter(_no_blank_ends)
st_pad = st.lists(st.sampled_from([" ", " ", " ", "\t", "\xa0", "　", "\x0b"]), max_size=3).map("".join)


@st.composite
def st_roundtrip(draw):
    ncols = draw(st.integers(1, 5))
    nrows = draw(st.integers(1, 4))
    rows = [[draw(st_cell) for _ in range(ncols)] for _ in range(nrows)]
    pads = [[[draw(st_pad), draw(st_pad)] for _ in range(ncols)] for _ in range(nrows)]
    indents = [draw(st_pad) for _ in range(nrows)]
    trail = [draw(st.sampled_from(["", "", " ", "\t ", "\r"])) for _ in range(nrows)]
    return {"sub": "roundtrip", "rows": rows, "pads": pads, "indents": indents, "trail": trail,
            "where": draw(st.sampled_from(["data", "examples"])), "eol": draw(st.sampled_from(["\n", "\n", "\r\n"]))}


def render_table(case, first_line):
    lines, cols = [], []
    for r, row in enumerate(case["rows"]):
        s = case["indents"][r] + "|"
        cc = []
        for c, text in enumerate(row):
            l, rp = case["pads"][r][c]
            s += l
            esc = escape_cell(text)
            cc.append(len(s) + 1)  # column of the first character (or of the closing pipe when empty)
            s += esc + rp + "|"
            if esc == "":
                cc[-1] = len(s)
        s += case["trail"][r]
        lines.append(s)
        cols.append(cc)
    return lines, cols


def check_roundtrip(case, stats):
    eol = case["eol"]
    if case["where"] == "data":
        head = ["Feature: f", " Scenario: s", "  Given x"]
    else:
        head = ["Feature: f", " Scenario Outline: s", "  Given x", " Examples:"]
    lines, cols = render_table(case, len(head) + 1)
    text = eol.join(head + lines + [""])
    nt = any(t and (t[0] == "\n" or t[-1] == "\n" or "\\" in t or "|" in t) for row in case["rows"] for t in row)
    stats.case(text, nt, sample=case, labels=[case["where"], "crlf" if eol == "\r\n" else "lf"])
    r = gh.parse(text)
    if r[0] != "ok":
        raise Violation(case, "rectangular table rejected: %r\n%s" % (r[1], text))
    sc = r[1]["feature"]["children"][0]["scenario"]
    if case["where"] == "data":
        rows = sc["steps"][0]["dataTable"]["rows"]
    else:
        ex = sc["examples"][0]
        rows = [ex["tableHeader"]] + ex["tableBody"]
    got = [[(c["value"], c["location"]["line"], c["location"]["column"]) for c in rw["cells"]] for rw in rows]
    exp = [[(t, len(head) + 1 + i, cols[i][j]) for j, t in enumerate(row)] for i, row in enumerate(case["rows"])]
    if got != exp:
        raise Violation(case, "cells written with the three escapes are not read back unchanged: got %r expected %r" % (got, exp))
    gotrow = [(rw["location"]["line"], rw["location"]["column"]) for rw in rows]
    exprow = [(len(head) + 1 + i, len(case["indents"][i]) + 1) for i in range(len(rows))]
    if gotrow != exprow:
        raise Violation(case, "row locations %r, expected %r" % (gotrow, exprow))


def unit_roundtrip(a):
    stats = Stats()
    hyp(stats, st_roundtrip(), check_roundtrip, a["n"], shard_seed(a["seed"], a["shard"], 2))
    return stats


# ------------------------------------------------------------------ rectangular / ragged tables
@st.composite
def st_shape(draw):
    n = draw(st.integers(1, 6))
    base = draw(st.integers(0, 4))
    counts = [base] * n
    if draw(st.booleans()) and n > 1:
        for _ in range(draw(st.integers(1, 2))):
            i = draw(st.integers(1, n - 1))
            counts[i] = draw(st.integers(0, 5))
    return {"sub": "shape", "counts": counts, "where": draw(st.sampled_from(["data", "examples", "bgdata", "examples-stepless", "examples-second-block", "rule-examples-stepless"])),
            "indents": [draw(st.integers(0, 6)) for _ in range(n)],
            "escapes": draw(st.booleans()), "follow": draw(st.sampled_from(["", "step", "scenario", "comment"]))}


def check_shape(case, stats):
    counts = case["counts"]
    if case["where"] == "data":
        head = ["Feature: f", " Scenario: s", "  Given x"]
    elif case["where"] == "bgdata":
        head = ["Feature: f", " Background:", "  Given x"]
    elif case["where"] == "examples-stepless":
        head = ["Feature: f", " Scenario Outline: s", " Examples:"]
    elif case["where"] == "rule-examples-stepless":
        head = ["Feature: f", " Rule: r", "  Scenario Outline: s", "   description", "  Examples:"]
    elif case["where"] == "examples-second-block":
        head = ["Feature: f", " Scenario Outline: s", " Examples: fine", "  | a |", "  | 1 |", " @t", " Examples:"]
    else:
        head = ["Feature: f", " Scenario Outline: s", "  Given x", " Examples:"]
    rows = []
    for i, n in enumerate(counts):
        cell = " \\| " if case["escapes"] else " c "
        rows.append(" " * case["indents"][i] + "|" + "".join(cell + "|" for _ in range(n)))
    tail = {"": [], "step": ["  And y"] if not case["where"].endswith(("examples", "stepless", "block")) else [" Examples:"],
            "scenario": [" Scenario: t"], "comment": ["# c"]}[case["follow"]]
    text = "\n".join(head + rows + tail) + "\n"
    first_bad = next((i for i, n in enumerate(counts) if n != counts[0]), None)
    stats.case(text, first_bad is not None and len(counts) > 2, sample=case,
               labels=["ragged" if first_bad is not None else "rectangular", case["where"]])
    for stop in (False, True, "used"):
        if stop == "used":
            # a parser whose earlier parses were aborted while a table was open (first fault right behind table rows, in stop mode; the
            # error limit reached inside a table): what it has seen of those tables plays no part in the next document
            used = gh.Parser(gh.AstBuilder(gh.IdGenerator()))
            gh.parse("Feature: f\n Scenario: s\n  Given x\n   | a | b | c |\n   | d | e | f |\n garbage\n", parser=used, stop=True)
            gh.parse("Feature: f\n" + " bad\n" * 9 + " Scenario: s\n  Given x\n   | p |\n   | q |\n bad again\n more\n", parser=used, stop=False)
            gh.parse("Feature: f\n Scenario Outline: s\n  Given x\n  Examples:\n   | h1 | h2 |\n   | v1 | v2 |\n garbage\n", parser=used, stop=True)
            r = gh.parse(text, parser=used, stop=False)
            stop = "collecting, parser used before on documents aborted inside a table"
        else:
            r = gh.parse(text, stop=stop)
        if first_bad is None:
            if r[0] != "ok":
                raise Violation(case, "rectangular table rejected (stop=%s): %r" % (stop, r[1]))
        else:
            line = len(head) + 1 + first_bad
            col = case["indents"][first_bad] + 1
            exp = [(line, col, "(%d:%d): %s" % (line, col, RAGGED))]
            if r[0] == "ok":
                raise Violation(case, "ragged table (cell counts %r) accepted (stop=%s)" % (counts, stop))
            if r[1] != exp:
                raise Violation(case, "ragged table with counts %r: errors %r, expected %r (stop=%s)" % (counts, r[1], exp, stop))


SAME_LENGTH_TABLES = [["| name  | value |", "| a | b | c     |"], ["| a | b | c     |", "| name  | value |"], ["| ab | cd |", "| a|b| cd |"], ["| ab | cd |", "|  a | b| |"],
                      ["| name  | value |", "| a     | b     |", "| a | b | c     |"], ["|a|b|", "|a||", "||b|", "|ab||"[:5]], ["| x  | y  |", "| x | y |  "], ["| 1 | 2 | 3 |", "| 1 | 2   3 |"],
                      ["| a | b |", "| a | b |", "| a|| b |"], ["|  a  |  b  |", "| a | b |  |"]]


def check_same_length(case, stats):
    """rows of EQUAL LENGTH with their pipes at other places: each row is split on its own (no layout is carried over from the row above);
    a table whose rows have different cell counts is rejected at the first deviating row"""
    rows = case["rows"]
    text = "Feature: f\n Scenario: s\n  Given t\n" + "".join("   " + r + "\n" for r in rows)
    counts = [len(ref_row(r + "\n")) for r in rows]
    stats.case(text, True, sample=case)
    r = gh.parse(text)
    bad = next((i for i, n in enumerate(counts) if n != counts[0]), None)
    if bad is None:
        want = [[t for t, _ in ref_row(rw + "\n")] for rw in rows]
        got = [[c["value"] for c in x["cells"]] for x in r[1]["feature"]["children"][0]["scenario"]["steps"][0]["dataTable"]["rows"]] if r[0] == "ok" else r[1][:2]
        if got != want:
            raise Violation(case, "table with rows %r: cells %r, expected %r" % (rows, got, want))
    else:
        exp = [(4 + bad, 4, "(%d:4): %s" % (4 + bad, RAGGED))]
        if r[0] == "ok" or r[1] != exp:
            raise Violation(case, "rows %r have %r cells: %r, expected %r" % (rows, counts, "accepted" if r[0] == "ok" else r[1], exp))


def check_two_tables(case, stats):
    """several ragged tables in one document: each is reported (at its own first deviating row)"""
    k = case["tables"]
    lines, exp = ["Feature: f"], []
    for i in range(k):
        lines += [" Scenario: s%d" % i, "  Given x", "   | a | b |", "   | c | d |", "    | e |"]
        exp.append((len(lines), 5, "(%d:5): %s" % (len(lines), RAGGED)))
        lines += ["   | f | g | h |"]
    text = "\n".join(lines) + "\n"
    stats.case(text, True, sample=case, labels=["tables=%d" % k])
    r = gh.parse(text)
    if r[0] == "ok" or r[1] != exp[:11]:
        raise Violation(case, "%d ragged tables in one document: errors %r, expected %r" % (k, r[1] if r[0] != "ok" else "accepted", exp[:11]))
    # the same with the tables being the Examples tables of ONE outline (and of several outlines)
    for per_outline in (k, 1):
        lines, exp = ["Feature: f"], []
        for i in range(k):
            if i % per_outline == 0:
                lines += [" Scenario Outline: o%d" % i, "  Given <a>"]
            lines += ["  Examples: e%d" % i, "   | a | b |", "   | c | d |", "    | e |"]
            exp.append((len(lines), 5, "(%d:5): %s" % (len(lines), RAGGED)))
            lines += ["   | f | g | h |"]
        text2 = "\n".join(lines) + "\n"
        r = gh.parse(text2)
        if r[0] == "ok" or r[1] != exp[:11]:
            raise Violation(case, "%d ragged examples tables (%d per outline): errors %r, expected %r\n%s" % (k, per_outline, r[1] if r[0] != "ok" else "accepted", exp[:11], text2))


def unit_shape(a):
    stats = Stats()
    if a["shard"] == 0:
        sweep(stats, [{"sub": "two-tables", "tables": k} for k in (1, 2, 3, 5, 11, 12)], check_two_tables)
        sweep(stats, [{"sub": "same-length", "rows": r} for r in SAME_LENGTH_TABLES], check_same_length)
    hyp(stats, st_shape(), check_shape, a["n"], shard_seed(a["seed"], a["shard"], 3))
    return stats


def check_concurrent(case, stats):
    """rows split by several threads at once (each thread has its own GherkinLine objects): every result == reference"""
    import sys
    import threading
    rows = ["| a%d | \\| b%d | c \\n d | %s |" % (i, i, "x" * (i % 7)) for i in range(60)]
    want = [ref_row(r + "\n") for r in rows]
    errors = []

    def work(k):
        try:
            for rep in range(case["reps"]):
                for i in range(len(rows)):
                    j = (i * 7 + k) % len(rows)
                    got = [(c["text"], c["column"]) for c in gh.GherkinLine(rows[j] + "\n", 1).table_cells]
                    if got != want[j]:
                        errors.append((rows[j], got, want[j]))
                        return
        except BaseException as e:  # noqa
            errors.append(("exception", repr(e), None))
    old = sys.getswitchinterval()
    sys.setswitchinterval(1e-6)
    try:
        ts = [threading.Thread(target=work, args=(k,), daemon=True) for k in range(4)]
        for t in ts:
            t.start()
        for t in ts:
            t.join(300)
    finally:
        sys.setswitchinterval(old)
    stats.case(("concurrent", case["reps"]), True, sample=case)
    if errors:
        raise Violation(case, "row %r split while other threads were splitting rows too gives %r, expected %r" % errors[0])


def unit_concurrent(a):
    stats = Stats()
    sweep(stats, [{"sub": "concurrent", "reps": a["reps"]}], check_concurrent)
    return stats


def unit_wide(a):
    stats = Stats()
    cases = []
    for w in a["widths"]:
        for counts in ([w, w], [w, w, w], [w, w - 1], [w - 1, w, w], [w, w, w + 1]):
            for where in ("data", "examples"):
                cases.append({"sub": "shape", "counts": counts, "where": where, "indents": [3] * len(counts), "escapes": False, "follow": "step" if where == "data" else ""})
    sweep(stats, cases, check_shape)
    return stats


def unit_tall(a):
    """tall tables whose width changes after a whole block of equal rows (a comparison done in slices, or against the previous row only, misses it)"""
    stats = Stats()
    cases = []
    for b in a["blocks"]:
        for counts in ([2] * b + [3], [2] * b + [3] * b, [2] * b + [1] + [2] * 3, [2] * (2 * b) + [3] * b + [2] * b, [1] * b + [2] * b + [3] * b, [3] * (b + 1) + [2] * (b - 1), [2] * (b + b // 2)):
            for where in ("data", "examples"):
                cases.append({"sub": "shape", "counts": counts, "where": where, "indents": [3] * len(counts), "escapes": False, "follow": "step" if where == "data" else "", "budget_s": 120})
    sweep(stats, [c for i, c in enumerate(cases) if i % a["nshards"] == a["shard"]], check_shape)
    return stats


def replay(case, stats):
    if case.get("sub") == "two-tables":
        return check_two_tables(case, stats)
    if case.get("sub") == "same-length":
        return check_same_length(case, stats)
    return {"row": check_row, "roundtrip": check_roundtrip, "shape": check_shape, "concurrent": check_concurrent}[case["sub"]](case, stats)


def run(ctx):
    q = ctx.quick
    ns = 8 if q else 16
    maxlen, doclen = (6, 5) if q else (8, 6)
    ctx.units("rows-exhaustive", unit_rows,
              [{"maxlen": maxlen, "doclen": doclen, "shard": i, "nshards": ns} for i in range(ns)], procs=ns)
    ctx.units("escape-pairs", unit_escape_pairs, [{}])
    ctx.units("rows-long", unit_long_rows, [{"lengths": list(range(1, 40)) + [63, 64, 65, 100, 127, 128, 129, 255, 256, 257, 300, 999, 1000, 1001, 1500, 5000] + ([] if q else [4096, 10000, 50000])}])
    ctx.units("rows-unicode", unit_unirows,
              [{"n": 2250 if q else 20000, "seed": ctx.seed, "shard": i} for i in range(8 if q else 16)], procs=16)
    ctx.units("roundtrip", unit_roundtrip,
              [{"n": 900 if q else 8000, "seed": ctx.seed, "shard": i} for i in range(8 if q else 16)], procs=16)
    ctx.units("rows-concurrent-threads", unit_concurrent, [{"reps": 30 if q else 300}])
    ctx.units("table-shape-wide", unit_wide, [{"widths": [9, 10, 11, 31, 32, 33, 64, 100, 127, 128, 129, 255, 256, 257, 258, 300, 1000, 4095, 4096, 4097, 5000] + ([] if q else [65535, 65536, 65537])}])
    ctx.units("table-shape-tall", unit_tall, [{"blocks": [2, 8, 16, 32, 64, 100, 128, 255, 256, 257, 512, 1000, 1024] + ([] if q else [2048, 4096, 10000, 65536]), "shard": i, "nshards": 16} for i in range(16)], procs=16)
    ctx.units("table-shape", unit_shape,
              [{"n": 750 if q else 6000, "seed": ctx.seed, "shard": i} for i in range(8 if q else 16)], procs=16)
    ctx.exhaustive = False
    ctx.extra["exhaustive_part"] = "all %d row strings over {| \\ n blank x #} (the 5 character classes the splitter distinguishes plus the comment character) of length <= %d" % (
        sum(6 ** i for i in range(maxlen + 1)), maxlen)
    ctx.rule = ("rows: every string over {'|','\\\\','n',' ','x'} up to the length bound (exhaustive) and Hypothesis rows over Unicode "
                "incl. exotic blanks, compared with the two-pass reference splitter (values and columns), directly on "
                "GherkinLine.table_cells and through a one-step document; round trip: cells without blanks at the ends, escaped "
                "with the three escapes, random padding, as data table / examples table; shapes: cell-count vectors, ragged at a "
                "chosen row, both error modes. Non-trivial: row has an escape adjacent to a pipe or to the row end, or blanks "
                "next to an escaped newline / cell text containing LF, backslash or pipe / ragged table of >2 rows. "
                "Distinct = distinct row string / document text.")
    ctx.assumptions += ["blank = any character with str.isspace() other than LF (the implementation's and its siblings' definition)",
                        "reference splitter vlib/refs.py is itself correct (two-pass, written from the property text)"]
