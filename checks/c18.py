"""C18 - the builder sees each source line exactly once, in order, then one EOF."""
from __future__ import annotations

import collections
import glob
import itertools
import os
import re

from vlib import gh, model, noisy, tables
from vlib.common import REPO, Stats, Violation, hyp, shard_seed, sweep
from vlib.instr import RecordingAstBuilder
from vlib.refparse import ref_parse
from vlib.refs import split_lines

UNEXPECTED = re.compile(r"^\((\d+):\d+\): expected: ")
UNEXPECTED_EOF = re.compile(r"^\((\d+):\d+\): unexpected end of file")
SYMS = ["TagLine", "Comment", "Empty", "ExamplesLine", "ScenarioLine", "RuleLine", "StepLine", "TableRow", "Other"]
PREFIXES = {
    "feature": ["FeatureLine"],
    "scenario-step": ["FeatureLine", "ScenarioLine", "StepLine"],
    "outline-table": ["FeatureLine", "ScenarioLine", "StepLine", "ExamplesLine", "TableRow", "TableRow"],
    "rule": ["FeatureLine", "RuleLine", "ScenarioLine", "StepLine"],
    "background": ["FeatureLine", "BackgroundLine", "StepLine"],
}


def accounting(case, nlines, delivered, errors, accepted, what):
    """delivered: [(kind, line)], errors: [message]"""
    lines = [l for k, l in delivered if k != "EOF"]
    eofs = [l for k, l in delivered if k == "EOF"]
    if accepted:
        if lines != list(range(1, nlines + 1)):
            raise Violation(case, "%s: accepted document of %d lines, builder received lines %r" % (what, nlines, lines))
        if eofs != [nlines + 1] or delivered[-1][0] != "EOF":
            raise Violation(case, "%s: builder must receive exactly one EOF (line %d) last; got %r" % (what, nlines + 1, delivered[-3:]))
        return
    unexpected = collections.Counter()
    eof_err = 0
    for m in errors:
        mm = UNEXPECTED.match(m)
        if mm:
            unexpected[int(mm.group(1))] += 1
        if UNEXPECTED_EOF.match(m):
            eof_err += 1
    capped = len(errors) >= 11
    if any(b <= a for a, b in zip(lines, lines[1:])):
        raise Violation(case, "%s: lines delivered out of order or twice: %r" % (what, lines))
    c = collections.Counter(lines)
    last = max(lines + list(unexpected) + [0])
    for ln in range(1, (last if capped else nlines) + 1):
        if c[ln] + unexpected[ln] != 1:
            raise Violation(case, "%s: line %d was delivered %d times and reported unexpected %d times (errors %r)" % (what, ln, c[ln], unexpected[ln], errors[:4]))
    if len(eofs) > 1 or (not capped and len(eofs) + eof_err != 1):
        raise Violation(case, "%s: end of file delivered %d times and reported %d times" % (what, len(eofs), eof_err))


# ------------------------------------------------------------------ (a) token-kind level, exhaustive
def check_kinds(case, stats):
    kinds = case["kinds"]
    toks = [tables.stub_token({k, "Other"}, i + 1) for i, k in enumerate(kinds)]
    delivered = []

    class Delivered(tables.RecordingBuilder):
        def build(self, t):
            delivered.append(("EOF" if t.eof() else t.matched_type, t.location["line"]))
            super().build(t)
    b = Delivered()
    p = gh.Parser(b)
    try:
        p.parse(tables.ListScanner(toks), tables.StubMatcher())
        ok, errs = True, []
    except gh.CompositeParserException as e:
        ok, errs = False, [str(x) for x in e.errors]
    tail = kinds[case["npre"]:]
    runs = sum(1 for i in range(len(tail) - 1) if tail[i] == "TagLine" and tail[i + 1] in ("Comment", "Empty", "TagLine"))
    stats.case(tuple(kinds), runs >= 1 and tail.count("TagLine") >= 2, sample=case, labels=["accepted" if ok else "rejected"])
    accounting(case, len(kinds), delivered, errs, ok, "kinds " + " ".join(kinds))


def unit_kinds(a):
    stats = Stats()

    def gen():
        n = 0
        for name, pre in PREFIXES.items():
            for L in range(0, a["L"] + 1):
                for tup in itertools.product(SYMS, repeat=L):
                    n += 1
                    if n % a["nshards"] == a["shard"]:
                        yield {"sub": "kinds", "kinds": pre + list(tup), "npre": len(pre)}
    sweep(stats, gen(), check_kinds)
    return stats


def unit_long_runs(a):
    """long runs of tag / comment / blank lines behind a tag line: every buffered line must still reach the builder, in order"""
    from .c02 import LONG_PREFIXES
    stats = Stats()

    def gen():
        pats = {"tags": lambda i: "TagLine", "comments": lambda i: "Comment", "blanks": lambda i: "Empty", "mixed": lambda i: ("TagLine", "Comment", "Empty")[i % 3]}
        k = 0
        for name, pre in LONG_PREFIXES.items():
            for n in a["lengths"]:
                for pn, f in pats.items():
                    k += 1
                    if k % a["nshards"] != a["shard"]:
                        continue
                    for term in (["ScenarioLine"], ["ExamplesLine"], ["RuleLine"], ["Other"], []):
                        yield {"sub": "kinds", "kinds": pre + ["TagLine"] + [f(i) for i in range(n)] + term, "npre": len(pre)}
    sweep(stats, gen(), check_kinds)
    return stats


def unit_long_text(a):
    stats = Stats()
    texts = []
    for n in a["lengths"]:
        for filler in (" @t%d\n", " # c%d\n", "\n", " @a%d @b\n # c\n\n"):
            run = "".join((filler % i) if "%d" in filler else filler for i in range(n))
            texts.append("Feature: f\n Scenario: s\n  Given x\n @first\n" + run + " Scenario: t\n  Given y\n")
            texts.append("Feature: f\n Scenario Outline: s\n  Given <a>\n @first\n" + run + " Examples:\n  | a |\n  | 1 |\n")
            texts.append("Feature: f\n Background:\n  Given x\n @first\n" + run + " Rule: r\n  Scenario: t\n")
    sweep(stats, [{"sub": "text", "text": t, "label": "long-run"} for t in texts], check_text)
    from .c14 import quoted_cases
    sweep(stats, quoted_cases(), check_text)
    return stats


def check_huge(case, stats):
    """a document of more than 2^20 lines (thorough tier only): one token per line, then one EOF"""
    from vlib.tables import RecordingBuilder
    n = case["lines"]
    text = "Feature: f\n Scenario: s\n" + "  Given x\n" * (n - 2)
    b = RecordingBuilder()
    r = gh.parse(text, builder=b)
    built = [e[1] for e in b.ev if e[0] == "build"]
    stats.case(("huge", n), True, sample=case)
    if r[0] != "ok" or built != list(range(1, n + 2)):
        raise Violation(case, "a well-formed document of %d lines: %s; the builder received %d tokens (expected one per line and one end-of-file token = %d), last line numbers %r" % (
            n, "accepted" if r[0] == "ok" else "rejected %r" % (r[1][:2],), len(built), n + 1, built[-3:]))


def unit_huge(a):
    stats = Stats()
    sweep(stats, [{"sub": "huge", "lines": n, "budget_s": 30 + n // 3000} for n in a["lines"]], check_huge)
    return stats


# ------------------------------------------------------------------ (b) real text
def check_text(case, stats):
    text, dflt = case["text"], case.get("default", "en")
    if gh.names_existing_path(text):
        stats.label("excluded_known_F1")
        return
    b = RecordingAstBuilder()
    parser = gh.Parser(b)
    if case.get("prev") is not None and not gh.names_existing_path(case["prev"]):
        # earlier parses - in the same process and with the very same Parser - aborted at the first error (possibly while
        # look-ahead lines are queued) and aborted by the error limit, must not leak anything into this one
        gh.parse(case["prev"], case.get("prev_default", "en"), stop=True)
        gh.parse(case["prev"], case.get("prev_default", "en"), parser=parser, stop=True)
        gh.parse(case["prev"], case.get("prev_default", "en"), parser=parser, stop=False)
        if len(text) % 3 == 0:
            parser = gh.Parser(b)  # the used (recording, delegating) builder handed to a brand-new parser
    matcher = None
    if case.get("same_matcher_prevs"):
        # ONE matcher object for documents of several dialects (each names its own in a header), as a long-lived service keeps it
        matcher = gh.TokenMatcher(dflt)
        for pv in case["same_matcher_prevs"]:
            gh.parse(pv, dflt, matcher=matcher)
    real = gh.parse(text, dflt, parser=parser, stop=False, matcher=matcher)
    n = len(split_lines(text))
    raw = split_lines(text)
    tagrun = any(raw[i].lstrip().startswith("@") and (raw[i + 1].strip() == "" or raw[i + 1].lstrip()[:1] in "#@") for i in range(len(raw) - 1))
    stats.case(text, tagrun, sample={"text": text}, labels=["accepted" if real[0] == "ok" else "rejected", case.get("label", "-")])
    accounting(case, n, b.delivered, [] if real[0] == "ok" else [m for _, _, m in real[1]], real[0] == "ok", "text")
    ref = ref_parse(text, dflt)
    if ref.accepted == (real[0] == "ok") and b.delivered != ref.delivered:
        for i, (x, y) in enumerate(zip(b.delivered, ref.delivered)):
            if x != y:
                raise Violation(case, "token #%d delivered to the builder is %r, the reference parser delivers %r\n%s" % (i, x, y, text))
        raise Violation(case, "builder received %d tokens, reference %d\n%s" % (len(b.delivered), len(ref.delivered), text))


def unit_noisy(a):
    stats = Stats()
    from hypothesis import strategies as st
    strat = st.tuples(noisy.st_noisy(), noisy.st_noisy(900), st.integers(0, 3)).map(
        lambda x: {"sub": "text", "text": x[0][0], "default": x[0][1], "label": x[0][2], "prev": x[1][0] if x[2] else x[0][0], "prev_default": x[1][1] if x[2] else x[0][1]})
    hyp(stats, strat, check_text, a["n"], shard_seed(a["seed"], a["shard"], 18))
    return stats


def check_formatter_reuse(case, stats):
    """one Parser(TokenFormatterBuilder()) - as scripts.generate_tokens uses it - after a parse that was aborted before EOF"""
    p = gh.Parser(gh.TokenFormatterBuilder())
    stats.case((case["prev"], case["text"], case["stop"], case.get("new_parser")), True, sample=case)
    p.stop_at_first_error = case["stop"]
    try:
        p.parse(case["prev"], gh.TokenMatcher("en"))
    except gh.ParserError:
        pass
    if case.get("new_parser") == 1:
        # the used builder object moves on to a brand-new Parser (one formatter kept, parsers made per document)
        p = gh.Parser(p.ast_builder)
    p.stop_at_first_error = False
    try:
        got = p.parse(case["text"], gh.TokenMatcher("en"))
    except gh.ParserError as e:
        raise Violation(case, "valid document rejected after an aborted parse with the same parser: %s" % e)
    want = listing(case["text"])
    if got != want:
        raise Violation(case, "token listing from a parser/formatter used before (earlier document aborted) has %d lines, a fresh one %d; first lines %r vs %r" % (
            len(got.split("\n")), len(want.split("\n")), got.split("\n")[:2], want.split("\n")[:2]))


def unit_prev_combos(a):
    """every short fault combination parsed in stop mode (aborted at its first error) right before a valid document"""
    import itertools
    from .c14 import BLOCKS, BLOCK_NAMES
    stats = Stats()
    nexts = ["Feature: g\n @t\n Scenario: s\n  Given x\n", "Feature: g\n Scenario Outline: o\n  Given <a>\n @e\n\n Examples:\n  | a |\n  | 1 |\n", "@f\nFeature: g\n"]

    def gen():
        for L in (1, 2):
            for combo in itertools.product(BLOCK_NAMES, repeat=L):
                lines = ["Feature: f", " Scenario: s", "  Given x"]
                for b in combo:
                    lines += BLOCKS[b]
                for nx in nexts:
                    yield {"sub": "text", "label": "after-aborted-parse", "prev": "\n".join(lines) + "\n", "text": nx}
    sweep(stats, gen(), check_text)
    many = "Feature: f\n" + "".join(" bad %d\n" % i for i in range(14))
    sweep(stats, [{"sub": "text", "label": "same-document-again", "prev": many, "text": many},
                  {"sub": "text", "label": "same-document-again", "prev": many, "text": "Feature: f\n bad 3\n"},
                  {"sub": "text", "label": "same-document-again", "prev": many + " @a b\n", "text": "Feature: f\n" + " ok\n" * 0 + " bad 0\n bad 1\n"}], check_text)
    from .c15 import shared_keyword_pairs, doc_using
    pairs = shared_keyword_pairs()
    stats.notes["dialect_pairs_sharing_a_keyword_with_another_meaning"] = len(pairs)

    def across():
        for d1, d2, k in pairs:
            for x, y in ((d1, d2), (d2, d1)):
                yield {"sub": "text", "label": "one-matcher-across-dialects", "same_matcher_prevs": [doc_using(x, k)], "text": doc_using(y, k)}
                yield {"sub": "text", "label": "one-matcher-across-dialects", "same_matcher_prevs": [doc_using(x, k), doc_using(y, k)], "text": doc_using(x, k), "default": y}
    sweep(stats, across(), check_text)
    prevs = ["Feature: f\n Scenario: s\n  Given x\n   \"\"\"\n   open\n", "Feature: f\n @t\n", "garbage\nFeature: f\n", "Feature: f\n" + "".join(" bad %d\n" % i for i in range(12)),
             "Feature: f\n Scenario: s\n  Given x\n   | a | b |\n   | c |\n @t\n\n Scenario: t\n", "Feature: ok\n"]
    sweep(stats, [{"sub": "formatter-reuse", "prev": pv, "text": nx, "stop": st_, "new_parser": np_} for pv in prevs for nx in nexts for st_ in (False, True) for np_ in (0, 1)], check_formatter_reuse)
    return stats


# ------------------------------------------------------------------ (c) token listings
def listing(text, dflt="en"):
    return gh.Parser(gh.TokenFormatterBuilder()).parse(text, gh.TokenMatcher(dflt))


def check_listing(case, stats):
    doc = case["doc"]
    r = model.render(doc)
    stats.case(r.text, len(r.raw_lines) >= 5, sample={"text": r.text})
    got = listing(r.text, doc["default"])
    want = r.token_listing()
    if got != want:
        g, w = got.split("\n"), want.split("\n")
        for i, (x, y) in enumerate(zip(g, w)):
            if x != y:
                raise Violation(case, "token listing line %d is %r, expected %r\n%s" % (i + 1, x, y, r.text))
        raise Violation(case, "token listing has %d lines, expected %d\n%s" % (len(g), len(w), r.text))


def unit_listing(a):
    stats = Stats()
    hyp(stats, model.st_doc().map(lambda d: {"sub": "listing", "doc": d}), check_listing, a["n"], shard_seed(a["seed"], a["shard"], 19))
    return stats


def check_golden(case, stats):
    f = os.path.join(REPO, "testdata", "good", case["file"])
    text = open(f, encoding="utf8", newline="").read()
    want = open(f + ".tokens", encoding="utf8", newline="").read()
    stats.case(case["file"], True, sample=case)
    got = listing(text)
    if got + "\n" != want and got != want:
        g, w = got.split("\n"), want.split("\n")
        for i, (x, y) in enumerate(zip(g, w)):
            if x != y:
                raise Violation(case, "%s: token listing line %d is %r, golden %r" % (case["file"], i + 1, x, y))
        raise Violation(case, "%s: token listing length differs from the golden file" % case["file"])


def check_file_scanner(case, stats):
    """a scanner made for a feature file (TokenScanner(path)) delivers that file's lines"""
    import shutil
    src = case["file"]
    name = "listed-%d.feature" % os.getpid()
    if case.get("text") is not None:
        # a generated file (UTF-8, like every feature file): comment lines that other tools read as encoding / editor directives are comments
        src = name + ".src"
        with open(src, "w", encoding="utf8") as f:
            f.write(case["text"])
    shutil.copyfile(src, name)
    want = listing(open(src, encoding="utf8").read())
    stats.case((os.path.basename(src), case["then"]), True, sample=case)
    sc = gh.TokenScanner(name)
    here = os.getcwd()
    try:
        if case["then"] == "rename":
            os.rename(name, name + ".moved")
        elif case["then"] == "delete":
            os.unlink(name)
        elif case["then"] == "chdir":
            os.makedirs("elsewhere", exist_ok=True)
            os.chdir("elsewhere")
        got = gh.Parser(gh.TokenFormatterBuilder()).parse(sc, gh.TokenMatcher("en"))
    finally:
        os.chdir(here)
        for f in (name, name + ".moved", name + ".src"):
            if os.path.exists(f):
                os.unlink(f)
    if got != want:
        g, w = got.split("\n"), want.split("\n")
        raise Violation(case, "token listing of a scanner made for a file that was then %sd: %d lines, the file's text gives %d; first lines %r vs %r" % (case["then"].rstrip("e"), len(g), len(w), g[:2], w[:2]))


def check_script(case, stats):
    """scripts.generate_tokens.main, in-process, over several corpus files with one parser: printed listing == goldens"""
    import contextlib
    import io
    import sys
    import scripts.generate_tokens as gt
    files = [os.path.join(REPO, "testdata", "good", f) for f in case["files"]]
    buf = io.StringIO()
    old = sys.argv
    sys.argv = ["generate_tokens"] + files
    try:
        with contextlib.redirect_stdout(buf):
            gt.main()
    finally:
        sys.argv = old
    want = "".join(open(f + ".tokens", encoding="utf8", newline="").read() for f in files)
    stats.case(tuple(case["files"]), True, sample=case)
    if buf.getvalue() != want:
        g, w = buf.getvalue().split("\n"), want.split("\n")
        for i, (x, y) in enumerate(zip(g, w)):
            if x != y:
                raise Violation(case, "generate_tokens over %r: output line %d is %r, goldens say %r" % (case["files"], i + 1, x, y))
        raise Violation(case, "generate_tokens over %r printed %d lines, goldens have %d" % (case["files"], len(g), len(w)))


def unit_golden(a):
    stats = Stats()
    files = [f for f in sorted(glob.glob(os.path.join(REPO, "testdata", "good", "*.feature"))) if os.path.exists(f + ".tokens")]
    names = [os.path.basename(f) for f in files]
    sweep(stats, [{"sub": "script", "files": names[i:i + 6]} for i in range(0, len(names), 6)] + [{"sub": "script", "files": names[::-1][:10]}], check_script)
    sweep(stats, [{"sub": "golden", "file": os.path.basename(f)} for f in files], check_golden)
    sweep(stats, [{"sub": "file-scanner", "file": f, "then": "parse"} for f in files[::4]], check_file_scanner)
    sweep(stats, [{"sub": "file-scanner", "file": "generated", "then": "parse", "text": t} for t in (
        "# encoding: iso-8859-1\n@caf\u00e9 @t\nFeature: Caf\u00e9\n Scenario: \u00fc\n  Given \u00e9\n   | \u00e4 | b |\n", "# -*- coding: latin-1 -*-\n# language: fr\nFonctionnalit\u00e9: f\n Sc\u00e9nario: s\n  Soit x\n",
        "# vim: set fileencoding=cp1252 :\nFeature: \u20ac\n", "#!encoding: utf-16\nFeature: f\n @\u65e5\u672c\n Scenario: s\n")], check_file_scanner)
    sweep(stats, [{"sub": "text", "text": t, "label": "corpus"} for n, t in noisy.corpus_texts()], check_text)
    return stats


def replay(case, stats):
    if case.get("sub") == "file-scanner":
        return check_file_scanner(case, stats)
    if case.get("sub") == "huge":
        return check_huge(case, stats)
    return {"kinds": check_kinds, "text": check_text, "listing": check_listing, "golden": check_golden, "script": check_script, "formatter-reuse": check_formatter_reuse}[case["sub"]](case, stats)


def run(ctx):
    q = ctx.quick
    L = 4 if q else 6
    ns = 16
    ctx.units("golden-token-listings", unit_golden, [{}])
    ctx.units("kind-sequences-exhaustive", unit_kinds, [{"L": L, "shard": i, "nshards": ns} for i in range(ns)], procs=ns)
    ctx.units("long-lookahead-runs", unit_long_runs, [{"lengths": list(range(0, 34)) + [64, 128, 129, 256, 257, 1100] + ([] if q else [1024, 1025, 4096]), "shard": i, "nshards": 16} for i in range(16)], procs=16)
    ctx.units("long-lookahead-text", unit_long_text, [{"lengths": list(range(0, 20)) + [31, 32, 33, 64, 128, 256, 1100] + ([] if q else [2000, 3000])}])
    from . import magnitude
    magnitude.run_big(ctx, "c18", "check_text", "text")
    ctx.units("after-aborted-parse", unit_prev_combos, [{}])
    ctx.units("very-long-documents", unit_huge, [{"lines": [70000] if q else [70000, (1 << 20) - 1, (1 << 20) + 8]}])
    ctx.units("real-text", unit_noisy, [{"n": 750 if q else 8000, "seed": ctx.seed, "shard": i} for i in range(8 if q else 16)], procs=16)
    ctx.units("model-token-listings", unit_listing, [{"n": 600 if q else 5000, "seed": ctx.seed, "shard": i} for i in range(8 if q else 16)], procs=16)
    ctx.exhaustive = False
    ctx.extra["exhaustive_part"] = "after each of %d prefixes, all sequences of length <= %d over %r" % (len(PREFIXES), L, SYMS)
    ctx.rule = ("(a) token-kind sequences (stub scanner/matcher, real parser, recording builder) after 5 prefixes, all continuations up to the bound; "
                "(b) real text (valid, mutated, soup, corpus) with a recording builder that delegates to the real AstBuilder; oracle: accepted => lines 1..n "
                "each once in order then exactly one EOF; rejected => per line delivered + unexpected-line errors == 1 up to the last line touched, "
                "delivery strictly increasing, at most one EOF; delivered (kind, line) list == reference parser's; (c) TokenFormatterBuilder output == listing "
                "rendered by the document model and == the *.tokens goldens. Non-trivial = a tag line followed by tag/comment/blank lines (look-ahead run, "
                ">=2 tag lines at kind level); distinct = distinct kind sequence / text.")
    ctx.assumptions += ["stub matcher delivers prescribed kinds: a line of kind K also counts as free text (Other), as real lines do"]
