#!/bin/bash
# MANIFEST.setup_cmd: offline; makes sure hypothesis is importable by /venv/bin/python and puts atheris into /verif/.deps
cd "$(dirname "${BASH_SOURCE[0]}")"
export PIP_NO_INDEX=1
WH=/opt/veriftools/wheels
/venv/bin/python -c 'import hypothesis' 2>/dev/null || /venv/bin/pip install --no-index --find-links $WH hypothesis
mkdir -p .deps
PYTHONPATH=.deps /venv/bin/python -c 'import atheris' 2>/dev/null || \
  /venv/bin/pip install --no-index --find-links $WH --target .deps atheris >/dev/null 2>&1 || \
  echo "note: atheris not installable here; the coverage-guided sub-campaign of C01 thorough will be skipped"
/venv/bin/python -c 'import hypothesis; print("hypothesis", hypothesis.__version__)'
exit 0
