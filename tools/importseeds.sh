#!/bin/bash
# copies sub-agent output /tmp/seed/<id>/SEED/{A,B}* into /verif/seeded/<id>-<variant>/
cd "$(dirname "${BASH_SOURCE[0]}")/.."
for d in /tmp/seed/C*/SEED; do
  id=$(basename $(dirname $d))
  for v in A B; do
    [ -f $d/$v.diff ] || continue
    t=seeded/$id-$v; [ -d $t ] && continue
    mkdir -p $t; cp $d/$v.diff $t/patch.diff; cp $d/${v}_demo.py $t/demo.py; cp $d/${v}_meta.json $t/meta.json
    echo imported $t
  done
done
