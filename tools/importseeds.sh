#!/bin/bash
# copies sub-agent output /tmp/seed/<id>/SEED/{A,B}* into /verif/seeded/<id>-<variant>/
cd "$(dirname "${BASH_SOURCE[0]}")/.."
for d in ${SEEDROOT:-/tmp/seed}/C*/SEED; do
  id=$(basename $(dirname $d))
  for v in A B; do
    o=$v; [ -n "$SEEDSUFFIX" ] && o=$( [ $v = A ] && echo ${SEEDSUFFIX%?} || echo ${SEEDSUFFIX#?} )
    [ -f $d/$v.diff ] || continue
    t=seeded/$id-$o; [ -d $t ] && continue
    mkdir -p $t; cp $d/$v.diff $t/patch.diff; cp $d/${v}_demo.py $t/demo.py; cp $d/${v}_meta.json $t/meta.json
    echo imported $t
  done
done
