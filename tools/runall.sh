#!/bin/bash
# runs every registered check (default: quick tier) and validates manifest + evidence against the schemas
cd "$(dirname "${BASH_SOURCE[0]}")/.."
TIER=${1:-quick}
rc=0
for id in $(/venv/bin/python -c "import json;print(' '.join(c['property_id'] for c in json.load(open('MANIFEST.json'))['checks']))"); do
  s=$(date +%s); out=$(./vcheck $id --tier $TIER 2>&1); r=$?; e=$(date +%s)
  echo "$id exit=$r $((e-s))s  $(echo "$out" | grep -E '^(OK|VIOLATION|KNOWN-FINDING|harness)' | head -3 | tr '\n' ' ' | cut -c1-220)"
  [ $r -ne 0 ] && rc=1
done
python3-vt - <<'PY'
import json, jsonschema, glob
jsonschema.validate(json.load(open('MANIFEST.json')), json.load(open('/root/.vp/MANIFEST.schema.json')))
S=json.load(open('/root/.vp/EVIDENCE.schema.json'))
for f in sorted(glob.glob('evidence/*.json')):
    jsonschema.validate(json.load(open(f)), S)
print('manifest and', len(glob.glob('evidence/*.json')), 'evidence files valid')
PY
exit $rc
