#!/venv/bin/python
"""Sensitivity runs: apply each deliberate break from tools/mutants.json to a scratch worktree of /repo (never /repo itself),
run the named checks against it (VERIF_REPO), report which caught it.   usage: tools/sens.py [name-substring ...]"""
import json, os, subprocess, sys, shutil

HERE = os.path.dirname(os.path.dirname(os.path.abspath(__file__)))
WT = "/tmp/verif-sens-wt"


def sh(*a, **k):
    return subprocess.run(a, capture_output=True, text=True, **k)


def main():
    muts = json.load(open(os.path.join(HERE, "tools", "mutants.json")))
    sel = sys.argv[1:]
    sh("git", "-C", "/repo", "worktree", "remove", "--force", WT)
    r = sh("git", "-C", "/repo", "worktree", "add", "--detach", WT, "HEAD")
    if r.returncode:
        print(r.stderr); return 2
    rows = []
    try:
        for m in muts:
            if sel and not any(s in m["name"] for s in sel):
                continue
            sh("git", "-C", WT, "checkout", "--", ".")
            p = os.path.join(WT, m["file"])
            s = open(p, encoding="utf8").read()
            if s.count(m["old"]) < 1:
                rows.append((m["name"], "PATTERN NOT FOUND", "")); continue
            s = s.replace(m["old"], m["new"], 1 if not m.get("all") else -1)
            open(p, "w", encoding="utf8").write(s)
            t = sh("/venv/bin/python", "-m", "pytest", "-q", "-x", "-p", "no:cacheprovider", cwd=WT)
            suite = "suite-pass" if t.returncode == 0 else "SUITE-FAILS"
            res = []
            for c in m["checks"]:
                env = dict(os.environ, VERIF_REPO=WT)
                rr = sh(os.path.join(HERE, "vcheck"), c, "--tier", "quick", env=env, cwd=HERE)
                res.append("%s:%s" % (c, {0: "MISSED", 1: "caught", 2: "HARNESS-ERR"}.get(rr.returncode, rr.returncode)))
            rows.append((m["name"], suite, " ".join(res)))
            print("%-45s %-12s %s" % rows[-1], flush=True)
    finally:
        sh("git", "-C", "/repo", "worktree", "remove", "--force", WT)
        shutil.rmtree(os.path.join(HERE, "replays"), ignore_errors=True)
    return 0


if __name__ == "__main__":
    sys.exit(main())
