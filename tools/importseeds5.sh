#!/bin/bash
# round 5+: agents were focused on files, not properties: /tmp/seedN/<focus>/SEED/{A,B,C}* -> seeded/<property>-r<N><focus><variant>/
cd "$(dirname "${BASH_SOURCE[0]}")/.."
ROOT=${1:-/tmp/seed5}; R=${2:-5}
for d in $ROOT/*/SEED; do
  focus=$(basename $(dirname $d))
  for v in A B C D; do
    [ -f $d/$v.diff ] && [ -f $d/${v}_demo.py ] && [ -f $d/${v}_meta.json ] || continue
    prop=$(/venv/bin/python -c "import json,sys,re; m=json.load(open(sys.argv[1])); p=str(m.get('property','C00')); print(re.findall(r'C\d\d', p)[0] if re.findall(r'C\d\d', p) else 'C00')" $d/${v}_meta.json)
    t=seeded/$prop-r$R$focus$v; [ -d $t ] && continue
    mkdir -p $t; cp $d/$v.diff $t/patch.diff; cp $d/${v}_demo.py $t/demo.py
    /venv/bin/python -c "import json,sys; m=json.load(open(sys.argv[1])); m['property']=sys.argv[2]; json.dump(m, open(sys.argv[3],'w'), indent=1)" $d/${v}_meta.json $prop $t/meta.json
    echo imported $t
  done
done
