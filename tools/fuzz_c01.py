#!/venv/bin/python
"""atheris (libFuzzer) target for C01: the full pipeline oracle runs inside the target.
usage: fuzz_c01.py <corpus dir> [libFuzzer flags]; VERIF_FUZZ_MODE=text|structured"""
import os
import sys

HERE = os.path.dirname(os.path.dirname(os.path.abspath(__file__)))
sys.path.insert(0, HERE)
sys.path.insert(0, os.path.join(HERE, ".deps"))
import atheris  # noqa: E402

from vlib import common  # noqa: E402,F401

with atheris.instrument_imports(include=["gherkin"]):
    from vlib import gh  # noqa: E402,F401
from vlib import model, noisy  # noqa: E402
from checks import c01  # noqa: E402

MODE = os.environ.get("VERIF_FUZZ_MODE", "text")


def one(data):
    if MODE == "structured":
        try:
            text, dflt, _ = noisy.g_noisy(model.Src(data))
        except Exception:
            return
    else:
        try:
            text = data.decode("utf-8")
        except UnicodeDecodeError:
            return
        dflt = "en"
    if gh.names_existing_path(text):
        return
    # no global state to reset: every iteration builds fresh Parser / matcher / builder / compiler instances
    try:
        c01.pipeline(text, dflt)
    except c01.BudgetExceeded:
        raise
    # anything else that escapes pipeline() is a finding: let libFuzzer save the input


atheris.Setup(sys.argv, one)
atheris.Fuzz()
