#!/venv/bin/python
"""tools/mkseedprompts.py <root> <round-word>: creates one scratch worktree of /repo per property under <root>/<id> (outside /repo and
/verif) and writes <root>/<id>.prompt.txt - the brief a fresh sub-agent gets.  The brief contains ONLY that property's text, the path of
its worktree and one-line titles of the changes earlier rounds already produced (so that it looks elsewhere); nothing from /verif."""
import glob
import json
import os
import subprocess
import sys

root, word = sys.argv[1], sys.argv[2]
VERIF = os.path.dirname(os.path.dirname(os.path.abspath(__file__)))
props = [json.loads(l) for l in open(os.path.join(VERIF, "properties.jsonl"))]
titles = []
for m in sorted(glob.glob(os.path.join(VERIF, "seeded", "*", "meta.json"))):
    d = json.load(open(m))
    titles.append("- [%s] %s" % (d.get("property", "?"), d.get("title", "")[:150]))

CAPS = open(os.path.join(VERIF, "tools", "seedprompt-capabilities.txt")).read().strip()

TEMPLATE = """You are helping to evaluate a verification harness by producing realistic *defects* ("seeded bugs") in a code base. Work ONLY inside the git worktree {wt} (a checkout of the cucumber/gherkin repository; the Python implementation is under {wt}/python/gherkin). Do not read or touch /verif or /repo, and do not look outside your worktree except for the Python interpreter /venv/bin/python (run code with `cd {wt}/python && PYTHONPATH={wt}/python /venv/bin/python ...`; the existing test suite runs with `cd {wt} && /venv/bin/python -m pytest -q -p no:cacheprovider`; 30 tests must pass). There is no network.

The property of the library that your change must BREAK:

----
{pid} - {title}

{statement}

Quantified over: {quant}

----

This is round {word}. Earlier rounds produced the ~{n} defects listed at the end; a verification harness now catches ALL of them, so repeating these ideas or close variations is useless. {caps}

Task: produce TWO different, independent small changes (variant A and variant B) to the Python implementation (files under python/gherkin/, including parser.py, token_matcher.py, token_matcher_markdown.py, gherkin_line.py, ast_builder.py, ast_node.py, dialect.py, pickles/compiler.py, stream/*.py, token_scanner.py, token_formatter_builder.py, errors.py ...) such that each one:
  1. still imports/compiles and the existing test suite (30 tests) still passes unedited;
  2. violates the property above for SOME inputs / histories, but NOT for ordinary everyday use: it should need something specific to manifest - an unusual input (particular characters, layout, dialect, a particular combination or count of elements), a multi-step sequence of operations (e.g. reusing an object after a particular earlier document), a particular position/boundary, or two cooperating code sites that each look fine alone. A change that breaks every document or the README example at once is NOT wanted. Make it look like a plausible programming mistake or an over-eager "optimisation"/refactoring a maintainer could commit, not sabotage (no magic strings like "if text == 'xyz'").
  3. A and B should have different root causes in different code locations.
  4. The violation must be one of the property AS STATED (its statement and its quantifier), using only the library's public behaviour; do not rely on private attributes in the demonstration.
  5. STAY INSIDE THE QUANTIFIER. The trigger must be something the "Quantified over" text above covers: ordinary str source texts / documents (any characters, layout, dialect, size), the documents the parser returns for them, and - where the property speaks of them - sequences of such documents through ordinary instances made by their constructors (Parser(), TokenMatcher(name), AstBuilder(), Compiler(), IdGenerator(), GherkinEvents(Options(...)), TokenScanner(text or path), SourceEvents([paths])) used through their documented methods, or the interleavings the property names. NOT acceptable this round (earlier rounds exhausted them and they are outside the properties): subclasses, duck-typed or non-dict/non-list stand-ins, hand-built ASTs with repeated nodes or ids, copies / pickles of library objects, reassigning attributes of objects in use, editing returned results and expecting isolation, interpreter flags, logging / warning configuration, environment tricks (cwd, rlimits, GC, pipes), threads sharing one instance.

For each variant write, under {wt}/SEED/ (create the directory):
  - A.diff / B.diff : the patch as produced by `git diff` in the worktree (ONLY that variant's change; apply-able with `git apply` on a clean checkout of the same commit). Produce variant A, save its diff, run `git checkout -- .`, then produce variant B the same way. Leave the worktree clean (no modifications to tracked files) at the end; SEED/ is untracked and stays.
  - A_demo.py / B_demo.py : a small standalone program (run as `cd {wt}/python && PYTHONPATH={wt}/python /venv/bin/python ../SEED/A_demo.py`) that exits with status 1 and prints what went wrong when the variant is applied, and exits 0 on the unmodified code. It must demonstrate a violation of the property as stated (not just "output changed").
  - A_meta.json / B_meta.json : {{"property": "<id>", "title": "<one line>", "files": [...], "needs": "<what specific input / sequence / condition is needed for it to manifest>", "why_tests_pass": "<why the 30 existing tests do not notice>"}}

Before finishing, VERIFY yourself for each variant: apply the diff on a clean tree, run the test suite (must pass), run the demo (must exit 1), revert, run the demo (must exit 0). Report in your final message, for A and B: the title, what it needs to manifest, and the verification results. Keep the final report short. Practical: keep EVERY reply and every single tool call short (write files in small pieces, never paste long lists back) - a reply longer than ~30k tokens aborts your session.


Ideas already used (do not repeat):
{used}
"""

os.makedirs(root, exist_ok=True)
for p in props:
    wt = os.path.join(root, p["id"])
    if not os.path.isdir(wt):
        subprocess.run(["git", "-C", "/repo", "worktree", "add", "--detach", "-q", wt, "HEAD"], check=True)
    with open(os.path.join(root, p["id"] + ".prompt.txt"), "w") as f:
        f.write(TEMPLATE.format(wt=wt, pid=p["id"], title=p["title"], statement=p["statement"], quant=p["quantifier"]["text"], word=word,
                                n=len(titles), caps=CAPS, used="\n".join(titles)))
print("prompts and worktrees for %d properties under %s" % (len(props), root))
