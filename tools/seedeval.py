#!/venv/bin/python
"""Evaluate seeded defects (/verif/seeded/<name>/{patch.diff,demo.py,meta.json}) against the checks.

For each seed: scratch worktree of /repo HEAD (never /repo itself) -> demo must exit 0 on the clean tree -> apply patch ->
existing test suite must pass -> demo must exit 1 -> run the listed checks with VERIF_REPO pointing at the worktree.
usage: tools/seedeval.py [--all-checks] [--tier quick|thorough] [seed-name-substring ...]"""
import json
import os
import shutil
import subprocess
import sys

HERE = os.path.dirname(os.path.dirname(os.path.abspath(__file__)))
WT = "/tmp/verif-seed-wt-%d" % os.getpid()


def sh(*a, **k):
    return subprocess.run(a, capture_output=True, text=True, **k)


def main():
    args = [a for a in sys.argv[1:] if not a.startswith("--")]
    allchecks = "--all-checks" in sys.argv
    tier = "thorough" if "--thorough" in sys.argv else "quick"
    seeds = sorted(d for d in os.listdir(os.path.join(HERE, "seeded")) if os.path.isdir(os.path.join(HERE, "seeded", d)))
    if args:
        seeds = [s for s in seeds if any(a in s for a in args)]
    man = json.load(open(os.path.join(HERE, "MANIFEST.json")))
    all_ids = [c["property_id"] for c in man["checks"]]
    r = sh("git", "-C", "/repo", "worktree", "add", "--detach", WT, "HEAD")
    if r.returncode:
        print(r.stderr)
        return 2
    results = {}
    try:
        for s in seeds:
            d = os.path.join(HERE, "seeded", s)
            meta = json.load(open(os.path.join(d, "meta.json")))
            sh("git", "-C", WT, "checkout", "--", ".")
            env = dict(os.environ, PYTHONPATH=os.path.join(WT, "python"), PYTHONDONTWRITEBYTECODE="1")
            demo = lambda: sh("/venv/bin/python", os.path.join(d, "demo.py"), cwd=os.path.join(WT, "python"), env=env).returncode
            clean = demo()
            ap = sh("git", "-C", WT, "apply", os.path.join(d, "patch.diff"))
            if ap.returncode:
                print("%-34s PATCH DOES NOT APPLY: %s" % (s, ap.stderr.strip()[:200]))
                continue
            suite = sh("/venv/bin/python", "-m", "pytest", "-q", "-p", "no:cacheprovider", cwd=WT).returncode
            broken = demo()
            ids = all_ids if allchecks else sorted(set([meta["property"]] + meta.get("also_check", [])))
            res = {}
            for c in ids:
                try:
                    rr = sh(os.path.join(HERE, "vcheck"), c, "--tier", tier, env=dict(os.environ, VERIF_REPO=WT), cwd=HERE, timeout=1500)
                    res[c] = {0: "missed", 1: "CAUGHT", 2: "harness-error"}.get(rr.returncode, str(rr.returncode))
                except subprocess.TimeoutExpired:
                    res[c] = "timeout"
            results[s] = {"demo_clean": clean, "suite": suite, "demo_with_patch": broken, "checks": res}
            ok = clean == 0 and suite == 0 and broken == 1
            print("%-34s %s  %s" % (s, "valid-seed" if ok else "INVALID(clean=%s suite=%s patched=%s)" % (clean, suite, broken),
                                   " ".join("%s:%s" % kv for kv in res.items() if allchecks is False or kv[1] != "missed")), flush=True)
    finally:
        sh("git", "-C", "/repo", "worktree", "remove", "--force", WT)
        shutil.rmtree(os.path.join(HERE, "replays"), ignore_errors=True)
    rp = os.path.join(HERE, "seeded", "RESULTS-%s.json" % tier)
    old = json.load(open(rp)) if os.path.exists(rp) else {}
    for k, v in results.items():
        if k in old and not allchecks:
            v["checks"] = dict(old[k].get("checks", {}), **v["checks"])
        old[k] = v
    json.dump(old, open(rp, "w"), indent=1, sort_keys=True)
    return 0


if __name__ == "__main__":
    sys.exit(main())
