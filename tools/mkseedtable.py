#!/venv/bin/python
"""Writes seeded/README.md (one row per seeded defect: what it breaks, what it needs, which checks catch it) and
refreshes the table between the SEEDED-TABLE markers in DESIGN.md."""
import glob
import json
import os
import re

HERE = os.path.dirname(os.path.dirname(os.path.abspath(__file__)))
res = {}
for f in glob.glob(os.path.join(HERE, "seeded", "RESULTS-*.json")):
    for k, v in json.load(open(f)).items():
        for c_, val in v.get("checks", {}).items():
            cur = res.setdefault(k, {})
            if "thorough" in os.path.basename(f):
                if val == "CAUGHT" and cur.get(c_) != "CAUGHT":
                    cur[c_] = "CAUGHT"
                    cur.setdefault("_thorough_only", []).append(c_)
            elif cur.get(c_) != "CAUGHT" or val == "CAUGHT":
                if val == "CAUGHT" and c_ in cur.get("_thorough_only", []):
                    cur["_thorough_only"].remove(c_)
                cur[c_] = val
        res[k]["_valid"] = (v.get("demo_clean") == 0 and v.get("suite") == 0 and v.get("demo_with_patch") == 1)
rows = []
for d in sorted(glob.glob(os.path.join(HERE, "seeded", "C*"))):
    name = os.path.basename(d)
    m = json.load(open(os.path.join(d, "meta.json")))
    r = res.get(name, {})
    caught = sorted((k + " (thorough tier only)" if k in r.get("_thorough_only", []) else k) for k, v in r.items() if v == "CAUGHT")
    missed = sorted(k for k, v in r.items() if v == "missed")
    rows.append((name, m["property"], m["title"].replace("|", "\\|"), m.get("needs", "").replace("|", "\\|").replace("\n", " "), caught, missed, r.get("_valid"), m.get("outside_domain")))
lines = ["| seed | breaks | change | caught by (quick tier) |", "|---|---|---|---|"]
for name, prop, title, needs, caught, missed, valid, outside in rows:
    t = title if len(title) < 150 else title[:147] + "..."
    lines.append("| %s | %s | %s | %s%s%s |" % (name, prop, t, ", ".join(caught) or "-", (" (not by: " + ", ".join(missed) + ")") if missed else "",
                                              (" - deliberately not chased, trigger outside the property's domain: " + outside.replace("|", "\\|")) if outside else ""))
table = "\n".join(lines)
with open(os.path.join(HERE, "seeded", "README.md"), "w", encoding="utf8") as f:
    f.write("# Seeded defects\n\nWritten by independent sub-agents that saw only the text of one property and a scratch worktree of /repo (nothing from /verif).\n"
            "Each directory: `patch.diff` (applies to the /repo commit the checks were built against), `demo.py` (exits 1 with the patch, 0 without; run from "
            "`<worktree>/python` with `PYTHONPATH=<worktree>/python`), `meta.json`.\n`tools/seedeval.py` verifies each seed (demo passes on the clean tree, the 30 "
            "existing tests pass with the patch, demo fails with the patch) in a scratch worktree and runs the checks against it.\n\n" + table + "\n\n## What each seed needs to manifest\n\n" +
            "\n".join("* **%s** - %s" % (r[0], r[3]) for r in rows) + "\n")
p = os.path.join(HERE, "DESIGN.md")
s = open(p, encoding="utf8").read()
if "<!-- SEEDED-TABLE -->" in s:
    s = re.sub(r"<!-- SEEDED-TABLE -->.*<!-- /SEEDED-TABLE -->", lambda m: "<!-- SEEDED-TABLE -->\n" + table + "\n<!-- /SEEDED-TABLE -->", s, flags=re.S)
    open(p, "w", encoding="utf8").write(s)
n_c = sum(1 for r in rows if r[4])
print("%d seeds, %d caught by at least one check, %d valid, %d outside the domain: %s; uncaught inside the domain: %s" % (
    len(rows), n_c, sum(1 for r in rows if r[6]), sum(1 for r in rows if r[7]), [r[0] for r in rows if r[7]], [r[0] for r in rows if not r[4] and not r[7]]))
