#!/venv/bin/python
"""Regenerates /verif/MANIFEST.json from the table below (a property is claimed once checks/<id>.py exists)."""
import json
import os

HERE = os.path.dirname(os.path.dirname(os.path.abspath(__file__)))

P = {
    "C01": ("generated-input search (Hypothesis grammar-guided + noisy documents, atheris coverage-guided fuzzing) against a validity predicate and a counted work bound",
            "Totality and linear matching work are searched for counterexamples over noisy/valid/mutated documents in both error modes through parse, compile and the stream API; exceptions are bucketed by root cause; match_* calls are counted and bounded linearly on length-scaled adversarial families.",
            "Search, not proof: absence of a crashing input is argued by volume, transition coverage and coverage-guided fuzzing. Inputs naming an existing path are excluded by construction (known finding F1)."),
    "C02": ("exhaustive table differential against sibling generated parsers + exhaustive bisimulation with an automaton built from gherkin.berp + bounded exhaustive/random token-sequence testing through the real parser",
            "The probed transition table of the running parser is compared with the five sibling tables and shown bisimilar to an NFA derived from gherkin.berp (finite, complete); sequences up to a bound and random walks go through Parser.parse with stub matcher and recording builder.",
            "The EBNF reader/NFA (vlib/berp.py) and the table scanners are trusted after calibration; any-length claim rests on finite-stateness plus the tested assumption that reactions depend only on (state, kind, look-ahead outcome)."),
    "C03": ("property-based testing: generated document model rendered to text, parsed AST compared with the intended AST (exact equality)",
            "Hypothesis draws structured documents (all dialects, all element kinds, Unicode text, layouts); the renderer emits text and the intended AST; equality of the whole dictionary decides.",
            "The model/renderer (vlib/model.py) is the oracle; it is calibrated against the acceptance corpus goldens."),
    "C04": ("property-based testing: intended locations from the renderer + model-free source-slice oracle at every reported location",
            "Every location of generated documents is compared with the position the renderer put the element at, and for arbitrary accepted documents the source is sliced at each reported location; error locations are checked against the reference parser.",
            "Lines end at LF only; column = code points; blank = str.isspace()."),
    "C05": ("exhaustive enumeration of dialect x keyword x role x layout with a table-derived oracle; Hypothesis for header spellings",
            "All 80 dialects x all listed keywords in every role, as default dialect and via language header, three layouts; negative sweep of foreign keywords; header grammar and near misses; byte comparison of the two language tables.",
            "Oracle derived from gherkin-languages.json (master copy) only."),
    "C06": ("property-based differential testing of Compiler.compile against a reference pickle compiler on generated ASTs and parsed documents",
            "Generated AST dictionaries and parser-produced documents are compiled by the real compiler and by an independent reference; number, order, names, uri, language and back references of pickles must agree.",
            "Reference compiler vlib/refcompile.py written from the property text; calibrated on golden pickles."),
    "C07": ("property-based differential testing against a reference pickle compiler + scoping invariant",
            "Same generators biased to backgrounds at both levels and several rules; pickle step lists (ids, text, arguments) compared with the reference and a rule-scoping invariant checked independently.",
            "Reference compiler trusted after calibration on goldens."),
    "C08": ("property-based differential testing against a reference pickle compiler + sibling-isolation invariant",
            "Tags at all four levels, duplicates, several siblings; tag lists compared in order with the reference; no foreign tag id may appear.",
            "Reference compiler trusted after calibration on goldens."),
    "C09": ("exhaustive enumeration over an adversarial alphabet + Hypothesis over Unicode against literal sequential str.replace",
            "All headers/values over a small adversarial alphabet and sampled Unicode, every slot (name, step text, cells, doc string content and media type), through Compiler.compile directly and through the parser.",
            "Literal substitution = Python str.replace applied per column in header order."),
    "C10": ("exhaustive enumeration of keyword-type sequences (AST level) + all dialects through the parser, against a fold oracle",
            "All sequences over the five keyword types across feature background, rule background and scenario steps up to a length bound, plain and outline; every dialect with representative keywords.",
            "Oracle: fold starting from Unknown."),
    "C11": ("property-based testing with an id model from the renderer, stateful histories (Hypothesis RuleBasedStateMachine) and a referential-integrity validator",
            "Fresh-generator runs must give exactly 0..n-1 in canonical order; histories through shared generators must give pairwise distinct ids and offset-equal documents; every pickle reference must resolve to the right kind of node.",
            "Canonical order as rendered by vlib/model.py, calibrated on golden ASTs."),
    "C12": ("exhaustive enumeration of row strings over the splitter's character classes + Hypothesis (Unicode rows, round trip, table shapes) against a two-pass reference splitter",
            "Every row string over {pipe, backslash, n, blank, other} up to length 6 (quick) / 9 (thorough) and sampled Unicode rows are compared (values and columns) with an independent reference; escaped cells round-trip; ragged tables are rejected at the first deviating row in both error modes.",
            "Reference splitter vlib/refs.py; blank = str.isspace() minus LF."),
    "C13": ("property-based testing: generated doc strings with Gherkin-looking content against the verbatim-content rule and the surrounding document model",
            "Doc strings with adversarial content lines, both delimiters, all indentation relations and media types inside backgrounds, scenarios and outlines; content/mediaType/delimiter and the rest of the AST must equal the model.",
            "Content lines never start (after trimming) with the active delimiter, by construction."),
    "C14": ("exhaustive (state x unexpected kind) enumeration + Hypothesis noisy documents against a table-driven reference parser built from the sibling tables",
            "For each parser state a witness prefix followed by each unexpected line kind, plus noisy documents with many faults, in both error modes and through the stream API; error lists are compared with the reference parser (line, column, message, order, cap, de-duplication).",
            "Reference parser vlib/refparse.py interprets the majority sibling table with the reference lexer."),
    "C15": ("exhaustive ordered pairs/triples of state-perturbing documents + Hypothesis stateful histories + exhaustive/sampled interleavings under a harness-owned scheduler, against fresh-instance results",
            "Reused parser/matcher/compiler results must equal fresh ones modulo id offset; interleaved parsers (gated scanners, one thread runnable at a time) must equal solo results; determinism across hash seeds; compile must not mutate its input.",
            "Interleavings at token-read granularity of separate instances under the GIL."),
    "C16": ("metamorphic property-based testing: seven layout transformations applied to corpus, generated and noisy documents",
            "CRLF, file-vs-string, trailing blanks, extra indentation, blank-line insertion, comment insertion and final newline are applied at one/several/all admissible positions; results must be related as the property states.",
            "Admissible positions are derived from the base run's token kinds; CR only inside CRLF."),
    "C17": ("property-based testing of the stream API against an envelope-sequence model and a hand-written Cucumber Messages shape validator",
            "Generated/noisy/corpus sources through GherkinEvents with all 8 option combinations and multi-source streams; envelope order, content and shapes are validated; per-source independence modulo id shift.",
            "Shape validator vlib/schema.py calibrated on every golden ndjson line."),
    "C18": ("exhaustive token-kind sequences through the real parser with stubs + Hypothesis real text, against a delivery-accounting oracle; golden token listings",
            "Recording builder must see each line once, in order, then one EOF for accepted input; for rejected input delivered + unexpected = 1 per line; token listings equal the model's listing and the corpus goldens.",
            "Stub matcher delivers prescribed kinds; look-ahead exercised through the real queue."),
    "C19": ("exhaustive enumeration of dialect x keyword x prefix x indentation lines against the MARKDOWN_WITH_GHERKIN.md rules; Hypothesis for tag lines",
            "Every title keyword at header depths 1..7, every step keyword with each bullet, table indentations 0..8 and separator rows, backtick-quoted tags; fresh matcher per line.",
            "Line-level only (end-to-end Markdown parsing is documented as JavaScript-only)."),
}


def main():
    props = [json.loads(l) for l in open(os.path.join(HERE, "properties.jsonl"), encoding="utf8")]
    checks, na = [], []
    for p in props:
        pid = p["id"]
        tech, text, note = P[pid]
        if os.path.exists(os.path.join(HERE, "checks", pid.lower() + ".py")):
            checks.append({
                "property_id": pid,
                "quick_cmd": "./vcheck %s --tier quick" % pid,
                "thorough_cmd": "./vcheck %s --tier thorough" % pid,
                "evidence_file": "evidence/%s.json" % pid,
                "replay_cmd_template": "./vcheck %s --replay {path}" % pid,
                "engine": "vcheck",
                "level_claimed": {"category": "exploration", "text": text, "design_ref": "DESIGN.md section 3, " + pid},
                "level_note": note,
                "technique": tech,
            })
        else:
            na.append({"property_id": pid, "reason": "check not yet built in this revision (planned, see DESIGN.md section 3 %s); the technique applies" % pid})
    man = {
        "version": 1,
        "setup_cmd": "./setup.sh",
        "hooks": {
            "guard": "CUCUMBER_GHERKIN_PYTHON_VERIF",
            "enable": "none needed: all observation points are reached by subclassing/wrapping from outside; vcheck exports CUCUMBER_GHERKIN_PYTHON_VERIF=1 but no source line depends on it",
            "baseline_off_cmd": "cd /repo && /venv/bin/python -m pytest -ra -q -p no:cacheprovider --timeout=900 --continue-on-collection-errors",
            "source_commits": [],
            "add_only": True,
        },
        "engines": [{"name": "vcheck", "path": "vcheck", "serves_properties": [c["property_id"] for c in checks],
                     "kind_free_text": "property-based testing / fuzzing runner: Hypothesis strategies, exhaustive enumeration of finite domains, atheris; reference models as oracles; sharded over 16 processes"}],
        "checks": checks,
        "not_applicable": na,
        "notes": "Genuine defects repaired by 'fix:' commits in /repo and the recorded known finding are listed in known_findings.json; see DESIGN.md sections 5 and 8.",
    }
    with open(os.path.join(HERE, "MANIFEST.json"), "w", encoding="utf8") as f:
        json.dump(man, f, indent=1)
        f.write("\n")
    print("claimed:", [c["property_id"] for c in checks], "not yet:", [n["property_id"] for n in na])


if __name__ == "__main__":
    main()
