"""R4 - an automaton built from /repo/gherkin.berp itself (EBNF reader + Thompson-style NFA with rule events)."""
from __future__ import annotations

import collections
import os
import re

from .common import REPO, HarnessError

BERP = os.path.join(REPO, "gherkin.berp")


class Grammar:
    def __init__(self, path=BERP):
        src = open(path, encoding="utf8").read()
        hdr = re.search(r"\[(.*?)\]", src, re.S).group(1)
        self.tokens = [x.strip().lstrip("#") for x in re.search(r"Tokens\s*->\s*(.*)", hdr).group(1).split(",")]
        self.ignored = [x.strip().lstrip("#") for x in re.search(r"IgnoredTokens\s*->\s*(.*)", hdr).group(1).split(",")]
        body = src[src.index("]") + 1:]
        self.rules = collections.OrderedDict()
        for line in body.splitlines():
            line = line.split("//")[0].strip()
            if not line:
                continue
            m = re.match(r"(\w+)(!?)\s*(\[[^\]]*\])?\s*:=\s*(.*)$", line)
            if not m:
                raise HarnessError("cannot read grammar line %r" % line)
            name, bang, hint, rhs = m.groups()
            la = None
            if hint:
                hm = re.match(r"\[(.*)->(.*)\]", hint)
                la = ([x.strip().lstrip("#") for x in hm.group(1).split("|")], [x.strip().lstrip("#") for x in hm.group(2).split("|")])
            self.rules[name] = {"node": bool(bang), "lookahead": la, "ast": self._parse_rhs(rhs)}
        self.top = next(iter(self.rules))
        self._build()

    @staticmethod
    def _parse_rhs(s):
        toks = re.findall(r"#\w+|\w+|[()|?*+]", s)
        pos = [0]

        def alt():
            seqs = [seq()]
            while pos[0] < len(toks) and toks[pos[0]] == "|":
                pos[0] += 1
                seqs.append(seq())
            return ("alt", seqs) if len(seqs) > 1 else seqs[0]

        def seq():
            items = []
            while pos[0] < len(toks) and toks[pos[0]] not in ("|", ")"):
                items.append(post())
            return ("seq", items)

        def post():
            a = atom()
            while pos[0] < len(toks) and toks[pos[0]] in "?*+":
                a = ({"?": "opt", "*": "star", "+": "plus"}[toks[pos[0]]], a)
                pos[0] += 1
            return a

        def atom():
            t = toks[pos[0]]
            pos[0] += 1
            if t == "(":
                a = alt()
                assert toks[pos[0]] == ")"
                pos[0] += 1
                return a
            if t.startswith("#"):
                return ("tok", t[1:])
            return ("rule", t)

        r = alt()
        assert pos[0] == len(toks)
        return r

    # ---------------------------------------------------------------- NFA
    def _build(self):
        self.edges = collections.defaultdict(list)  # node -> [(label, target)]; label ('tok', K) | ('eps', event|None)
        self._n = 0
        self.start = self._new()
        a = self._new()
        self.edges[self.start].append((("eps", ("start", self.top)), a))
        # the parser opens the top rule before it reads the first line: simulations start here
        self.begin = a
        self.begin_trace = (("start", self.top),)
        b = self._sub(self.rules[self.top]["ast"], a)
        c = self._new()
        self.edges[b].append((("tok", "EOF"), c))
        self.final = self._new()
        self.edges[c].append((("eps", ("end", self.top)), self.final))
        self._steps_cache = {}

    def _new(self):
        self._n += 1
        return self._n

    def _sub(self, ast, s):
        k = ast[0]
        E = self.edges
        if k == "tok":
            e = self._new()
            E[s].append((("tok", ast[1]), e))
            return e
        if k == "rule":
            r = self.rules[ast[1]]
            if r["node"]:
                a = self._new()
                E[s].append((("eps", ("start", ast[1])), a))
                b = self._sub(r["ast"], a)
                e = self._new()
                E[b].append((("eps", ("end", ast[1])), e))
                return e
            return self._sub(r["ast"], s)
        if k == "seq":
            for it in ast[1]:
                s = self._sub(it, s)
            return s
        if k == "alt":
            e = self._new()
            for it in ast[1]:
                a = self._new()
                E[s].append((("eps", None), a))
                b = self._sub(it, a)
                E[b].append((("eps", None), e))
            return e
        if k == "opt":
            a = self._new()
            E[s].append((("eps", None), a))
            b = self._sub(ast[1], a)
            e = self._new()
            E[b].append((("eps", None), e))
            E[s].append((("eps", None), e))
            return e
        if k == "star":
            loop = self._new()
            E[s].append((("eps", None), loop))
            a = self._new()
            E[loop].append((("eps", None), a))
            b = self._sub(ast[1], a)
            E[b].append((("eps", None), loop))
            e = self._new()
            E[loop].append((("eps", None), e))
            return e
        if k == "plus":
            a = self._new()
            E[s].append((("eps", None), a))
            b = self._sub(ast[1], a)
            loop = self._new()
            E[b].append((("eps", None), loop))
            E[loop].append((("eps", None), a))
            e = self._new()
            E[loop].append((("eps", None), e))
            return e
        raise ValueError(k)

    def steps(self, node):
        """all (kind, events, target): eps-paths from node followed by one token edge"""
        if node in self._steps_cache:
            return self._steps_cache[node]
        out = []

        def dfs(n, evs, seen):
            for lab, t in self.edges[n]:
                if lab[0] == "tok":
                    out.append((lab[1], tuple(evs), t))
                elif t not in seen:
                    dfs(t, evs + ([lab[1]] if lab[1] else []), seen | {t})
        dfs(node, [], {node})
        self._steps_cache[node] = out
        return out

    def follow(self, node):
        return {k for k, _, _ in self.steps(node)}

    def accepting_events(self, node):
        """events on an eps-path from node to final (after EOF was consumed)"""
        res = []

        def dfs(n, evs, seen):
            if n == self.final:
                res.append(tuple(evs))
            for lab, t in self.edges[n]:
                if lab[0] == "eps" and t not in seen:
                    dfs(t, evs + ([lab[1]] if lab[1] else []), seen | {t})
        dfs(node, [], {node})
        return res

    # ---------------------------------------------------------------- token resolution as the properties state it
    def options(self, node, kind):
        """[(events, target, effective kind)] for a token whose own kind is `kind`:
        its own kind where that is expected; else, for ignored kinds, a self-loop where free text is not expected;
        else free text (#Other) where that is expected; else nothing (the sequence is not a sentence)."""
        st = self.steps(node)
        fol = {k for k, _, _ in st}
        opts = [(ev, t, kind) for k, ev, t in st if k == kind]
        if opts:
            return opts
        if kind == "EOF":
            return []
        if "Other" in fol:
            return [(ev, t, "Other") for k, ev, t in st if k == "Other"]
        if kind in self.ignored:
            return [((), node, kind)]
        return []

    # path-set simulation of a whole kind sequence: tag lines may fork, the follower prunes
    def run(self, kinds):
        """kinds: list of primary kinds ending with 'EOF'. -> (accepted, trace or index of the first dead token)
        trace = list of events ('start', R) / ('end', R) / ('build', index)"""
        configs = [(self.begin, self.begin_trace)]
        for i, k in enumerate(kinds):
            nxt = []
            for node, trace in configs:
                for ev, t, eff in self.options(node, k):
                    nxt.append((t, trace + tuple(ev) + (("build", i),)))
            if not nxt:
                return False, i
            # identical configurations collapse
            seen = {}
            for c in nxt:
                seen.setdefault(c, None)
            configs = list(seen)
        done = []
        for node, trace in configs:
            for ev in self.accepting_events(node):
                done.append(trace + ev)
        if not done:
            return False, len(kinds)
        if len(set(done)) != 1:
            raise HarnessError("grammar automaton ambiguous on %r: %d derivations" % (kinds, len(set(done))))
        return True, list(done[0])


_G = None


def grammar():
    global _G
    if _G is None:
        _G = Grammar()
    return _G
