"""Shared runner infrastructure: statistics, violations, sharding, Hypothesis glue, evidence.

Conventions (see DESIGN.md section 1):
  * every sub-check is  (generator of JSON-able *cases*)  x  (oracle(case, stats) raising Violation)
  * a case is a plain dict with a 'sub' key, so that `--replay` can dispatch it without Hypothesis
  * exit 0 = held, 1 = violation (VIOLATION line + replay file), 2 = harness error
"""
from __future__ import annotations

import collections
import hashlib
import json
import os
import sys
import time
import traceback

REPO = os.environ.get("VERIF_REPO", "/repo")
VERIF = os.path.dirname(os.path.dirname(os.path.abspath(__file__)))
REPO_PY = os.path.join(REPO, "python")
if REPO_PY not in sys.path:
    sys.path.insert(0, REPO_PY)

NPROC = int(os.environ.get("VERIF_PROCS", "16"))


class Violation(Exception):
    def __init__(self, case, message, terminal=False):
        super().__init__(message)
        self.case = case
        self.message = message
        self.terminal = terminal  # do not try to shrink (e.g. every attempt would cost a watchdog period)


class _Watchdog(Exception):
    pass


def _on_alarm(signum, frame):
    raise _Watchdog()


CASE_TIMEOUT = float(os.environ.get("VERIF_CASE_TIMEOUT", "20"))


class HarnessError(Exception):
    pass


def digest(obj) -> int:
    if not isinstance(obj, (bytes, str)):
        obj = json.dumps(obj, sort_keys=True, ensure_ascii=True, default=repr)
    if isinstance(obj, str):
        obj = obj.encode("utf-8", "surrogatepass")
    return int.from_bytes(hashlib.blake2b(obj, digest_size=8).digest(), "big")


def short(obj, limit=600):
    """JSON-able, size-bounded rendering of a case for the evidence samples."""
    try:
        s = json.dumps(obj, ensure_ascii=False, default=repr)
    except Exception:
        s = repr(obj)
    if len(s) <= limit:
        try:
            return json.loads(s)
        except Exception:
            return s
    return s[:limit] + "...(%d chars)" % len(s)


class Stats:
    """What one unit of work covered.  Mergeable across shards."""

    MAX_SAMPLES = 4

    def __init__(self):
        self.evaluations = 0
        self.nontrivial = set()
        self.hist = collections.Counter()
        self.samples = []
        self.failures = []  # list of dict(case=..., message=...)
        self.notes = {}
        self.harness_errors = []

    def case(self, key, nontrivial, sample=None, labels=()):
        """Account one executed case. `key` identifies the case (any JSON-able / str)."""
        self.evaluations += 1
        for l in labels:
            self.hist[l] += 1
        if nontrivial:
            d = key if isinstance(key, int) else digest(key)
            if d not in self.nontrivial:
                self.nontrivial.add(d)
                if sample is not None and len(self.samples) < self.MAX_SAMPLES:
                    self.samples.append(short(sample))

    def label(self, *labels):
        for l in labels:
            self.hist[l] += 1

    def fail(self, case, message, terminal=False):
        self.failures.append({"case": case, "message": message, "terminal": bool(terminal)})

    def merge(self, other: "Stats"):
        self.evaluations += other.evaluations
        self.nontrivial |= other.nontrivial
        self.hist.update(other.hist)
        for s in other.samples:
            if len(self.samples) < self.MAX_SAMPLES:
                self.samples.append(s)
        self.failures.extend(other.failures)
        self.harness_errors.extend(other.harness_errors)
        for k, v in other.notes.items():
            if k in self.notes and isinstance(v, (int, float)) and isinstance(self.notes[k], (int, float)):
                self.notes[k] += v
            elif k in self.notes and isinstance(v, list) and isinstance(self.notes[k], list):
                self.notes[k] = self.notes[k] + [x for x in v if x not in self.notes[k]]
            elif k in self.notes and isinstance(v, set):
                self.notes[k] |= v
            else:
                self.notes[k] = v
        return self


class NullStats(Stats):
    def case(self, *a, **k):
        pass

    def label(self, *a):
        pass


_NULL = NullStats()


# --------------------------------------------------------------------------------------------
# classification of exceptions: library (violation material) versus harness (exit 2)

def _frames(exc):
    tb = exc.__traceback__
    out = []
    while tb is not None:
        out.append(tb.tb_frame.f_code.co_filename)
        tb = tb.tb_next
    return out


def exc_origin(exc) -> str:
    """'library' if the innermost frame that belongs to either the harness or the repo is a repo frame."""
    repo_py = os.path.realpath(REPO_PY)
    verif = os.path.realpath(VERIF)
    for fn in reversed(_frames(exc)):
        rp = os.path.realpath(fn)
        if rp.startswith(repo_py + os.sep):
            return "library"
        if rp.startswith(verif + os.sep):
            return "harness"
    return "harness"


def exc_bucket(exc):
    """(type, innermost gherkin frame) - one bucket per root cause."""
    repo_py = os.path.realpath(REPO_PY)
    tb = exc.__traceback__
    inner = None
    while tb is not None:
        fn = os.path.realpath(tb.tb_frame.f_code.co_filename)
        if fn.startswith(repo_py + os.sep):
            inner = (os.path.relpath(fn, repo_py), tb.tb_frame.f_code.co_name)
        tb = tb.tb_next
    return (type(exc).__name__,) + (inner or ("?", "?"))


def guarded(oracle, case, stats):
    """Run oracle; turn unexpected library exceptions into violations, harness ones into HarnessError."""
    import signal
    import threading
    armed = False
    budget = CASE_TIMEOUT
    if threading.current_thread() is threading.main_thread() and hasattr(signal, "setitimer"):
        try:
            if signal.getitimer(signal.ITIMER_REAL)[0] == 0:
                old = signal.signal(signal.SIGALRM, _on_alarm)
                # a case that is big by construction (a million lines) names its own budget
                budget = max(CASE_TIMEOUT, float(case.get("budget_s", 0))) if isinstance(case, dict) else CASE_TIMEOUT
                signal.setitimer(signal.ITIMER_REAL, budget)
                armed = True
        except (ValueError, OSError):
            armed = False
    try:
        _logging_level_for(case)
        return _guarded(oracle, case, stats)
    except _Watchdog:
        # a budget hit alone is inconclusive (the machine may be loaded): the case is run again, alone, with a much longer limit;
        # only a second trip - four to five orders of magnitude above the normal cost of a case - is reported as a hang
        if armed:
            signal.setitimer(signal.ITIMER_REAL, budget * 3)
            try:
                r = _guarded(oracle, case, NullStats())
                stats.label("slow-case-finished-on-retry(inconclusive)")
                return r
            except _Watchdog:
                pass
        raise Violation(case, "the code under test did not finish within %.0f s, and again not within %.0f s when re-run alone (normal cost: milliseconds) - hang or "
                              "super-linear blow-up" % (budget, budget * 3), terminal=True)
    finally:
        if armed:
            signal.setitimer(signal.ITIMER_REAL, 0)
            signal.signal(signal.SIGALRM, old)


def _guarded(oracle, case, stats):
    try:
        return oracle(case, stats)
    except Violation:
        raise
    except _Watchdog:
        raise
    except HarnessError:
        raise
    except (KeyboardInterrupt, SystemExit):
        raise
    except BaseException as e:  # noqa
        if type(e).__module__.startswith("hypothesis"):
            raise
        if exc_origin(e) == "library":
            raise Violation(case, "unexpected %s escaping library code: %s [%s]" % (
                type(e).__name__, str(e)[:200], "/".join(exc_bucket(e)[1:]))) from e
        raise HarnessError("harness bug while checking case %s:\n%s" % (
            short(case, 300), "".join(traceback.format_exception(type(e), e, e.__traceback__)))) from e


# --------------------------------------------------------------------------------------------
# drivers

def sweep(stats: Stats, cases, oracle, stop_after=1):
    """Run oracle over an iterable of cases; record at most `stop_after` violations."""
    nfail = 0
    for case in cases:
        try:
            guarded(oracle, case, stats)
        except Violation as v:
            stats.fail(v.case, v.message, v.terminal)
            nfail += 1
            if nfail >= stop_after:
                break
        except HarnessError as h:
            stats.harness_errors.append(str(h))
            break
    return stats


def hyp(stats: Stats, strategy, oracle, max_examples, seed_value, shrink=True, label=None):
    """Drive oracle with a Hypothesis strategy producing cases. Shrunk failure -> stats.failures."""
    import hypothesis
    from hypothesis import HealthCheck, Phase, given, settings

    phases = [Phase.explicit, Phase.generate] + ([Phase.shrink] if shrink else [])
    box = {}

    shrink_budget = int(os.environ.get("VERIF_SHRINK_BUDGET", "400"))

    @hypothesis.seed(seed_value)
    @settings(max_examples=max_examples, database=None, deadline=None, derandomize=False,
              report_multiple_bugs=False, suppress_health_check=list(HealthCheck), phases=phases,
              print_blob=False, verbosity=hypothesis.Verbosity.quiet)
    @given(strategy)
    def test(case):
        if box.get("terminal"):
            if case == box["best"]:
                raise box["v"]
            return
        if "best" in box:
            # shrinking is bounded by executions, not wall clock: beyond the budget every candidate other than the
            # current best is treated as "does not fail", so Hypothesis settles on the best case found so far
            box["n"] = box.get("n", 0) + 1
            if box["n"] > shrink_budget and case != box["best"]:
                return
        try:
            guarded(oracle, case, stats if "best" not in box else _NULL)
        except Violation as v:
            box["v"] = v
            box["best"] = case
            if v.terminal:
                box["terminal"] = True
            raise
        except HarnessError as h:
            box["h"] = h
            box["best"] = case
            raise

    try:
        test()
    except Violation as v:
        v = box.get("v", v)
        stats.fail(v.case, v.message, v.terminal)
    except HarnessError as h:
        stats.harness_errors.append(str(box.get("h", h)))
    except hypothesis.errors.Flaky as e:
        # the oracle is a pure function of (case, code under test): a case that fails once and passes when re-run in the same
        # process means the code's result depends on what was processed before (hidden state) - reported, not swallowed
        if "v" in box:
            stats.fail(box["v"].case, "[order-dependent: failed, then passed when re-run in the same process - hidden state between runs] " + box["v"].message)
        else:
            stats.harness_errors.append("hypothesis Flaky in %s: %s" % (label, str(e)[:300]))
    except hypothesis.errors.Unsatisfiable as e:
        stats.harness_errors.append("hypothesis Unsatisfiable in %s: %s" % (label, e))
    return stats


def shard_seed(seed, shard, salt=0):
    return (int(seed) * 1000003 + shard * 7919 + salt * 104729 + 17) % (2 ** 31)


def run_units(func, arglist, procs=None):
    """Run func(arg)->Stats for each arg, possibly in parallel (fork); returns merged Stats."""
    procs = min(procs or 1, len(arglist), NPROC)
    total = Stats()
    if procs <= 1:
        for a in arglist:
            total.merge(func(a))
        return total
    import multiprocessing as mp
    ctx = mp.get_context("fork")
    with ctx.Pool(procs) as pool:
        for st in pool.imap_unordered(_call, [(func, a) for a in arglist]):
            total.merge(st)
    return total


def _logging_level_for(case):
    """about every second case runs with the root logger at DEBUG (output discarded; which cases is a function of the case alone, so replays
    agree): what the library returns must not depend on whether the host application has debug logging switched on"""
    import logging
    import zlib
    root = logging.getLogger()
    if not any(isinstance(h, logging.NullHandler) for h in root.handlers):
        root.addHandler(logging.NullHandler())
    odd = zlib.crc32(repr(case)[:4000].encode("utf8", "surrogatepass")) & 1
    root.setLevel(logging.DEBUG if odd else logging.WARNING)
    return odd


def _call(fa):
    func, a = fa
    try:
        return func(a)
    except BaseException as e:  # a crash of a worker is a harness error, never a violation
        st = Stats()
        st.harness_errors.append("worker crashed on %s: %s" % (
            short(a, 200), "".join(traceback.format_exception(type(e), e, e.__traceback__))))
        return st


# --------------------------------------------------------------------------------------------
# context of one check run

class Ctx:
    def __init__(self, pid, tier, seed):
        self.pid = pid
        self.tier = tier
        self.seed = seed
        self.t0 = time.time()
        self.subs = collections.OrderedDict()
        self.assumptions = []
        self.rule = ""
        self.extra = {}
        self.known_lines = []
        self.exhaustive = None

    @property
    def quick(self):
        return self.tier == "quick"

    def add(self, name, stats: Stats):
        if name in self.subs:
            self.subs[name].merge(stats)
        else:
            self.subs[name] = stats
        return stats

    def units(self, name, func, arglist, procs=None):
        if getattr(self, "only", None) and name not in self.only:
            return None
        if any(f.get("terminal") for st_ in self.subs.values() for f in st_.failures):
            # a hang / blow-up was already found: every further sub-check would only pay the watchdog period again
            print("  %-28s skipped: a hang was already found by an earlier sub-check" % name)
            return None
        t = time.time()
        st = run_units(func, arglist, procs)
        st.notes["wall_s"] = round(time.time() - t, 2)
        return self.add(name, st)

    def shards(self, n_quick=1, n_thorough=16):
        return n_quick if self.quick else n_thorough

    def known(self, line):
        self.known_lines.append(line)


def load_known_findings():
    path = os.path.join(VERIF, "known_findings.json")
    if not os.path.exists(path):
        return []
    with open(path, encoding="utf8") as f:
        return json.load(f).get("findings", [])


def write_replay(pid, sub, case, message):
    d = os.path.join(VERIF, "replays", pid)
    os.makedirs(d, exist_ok=True)
    body = {"property": pid, "sub": sub, "message": message, "case": case}
    name = "%s-%016x.json" % (sub, digest(case))
    path = os.path.join(d, name)
    with open(path, "w", encoding="utf8") as f:
        json.dump(body, f, ensure_ascii=True, indent=1, default=repr)
    return path


def finish(ctx: Ctx) -> int:
    total = Stats()
    per_sub = {}
    failures = []
    harness = []
    for name, st in ctx.subs.items():
        total.evaluations += st.evaluations
        total.nontrivial |= {digest("%s:%d" % (name, d)) for d in st.nontrivial}
        for lab, c in st.hist.items():
            total.hist["%s/%s" % (name, lab)] += c
        per_sub[name] = {
            "evaluations": st.evaluations,
            "distinct_nontrivial": len(st.nontrivial),
            "histogram": dict(sorted(st.hist.items(), key=lambda kv: str(kv[0]))),
            "notes": {k: (sorted(v) if isinstance(v, set) else v) for k, v in st.notes.items()},
            "samples": st.samples[:2],
        }
        for f in st.failures:
            failures.append((name, f))
        harness.extend(st.harness_errors)
        for s in st.samples[:2]:
            total.samples.append({"sub": name, "case": s})
    seen = set()
    vio_lines = []
    for name, f in failures:
        d = digest(f["case"])
        if d in seen:
            continue
        seen.add(d)
        if len(vio_lines) >= 8:
            break
        path = write_replay(ctx.pid, name, f["case"], f["message"])
        vio_lines.append((path, name, f["message"]))
    coverage = {
        "evaluations": total.evaluations,
        "distinct_nontrivial": len(total.nontrivial),
        "rule": ctx.rule,
        "samples": total.samples[:12] or ["(no non-trivial sample recorded)"],
        "subchecks": per_sub,
    }
    if ctx.exhaustive is not None:
        coverage["exhaustive"] = bool(ctx.exhaustive)
    coverage.update(ctx.extra)
    ev = {
        "property_id": ctx.pid,
        "tier": ctx.tier,
        "seed": int(ctx.seed),
        "level": "exploration",
        "coverage": coverage,
        "assumptions": ctx.assumptions,
        "wall_s": round(time.time() - ctx.t0, 2),
        "violations": len(vio_lines),
    }
    if ctx.known_lines:
        ev["known_findings"] = ctx.known_lines
    # evidence/ describes runs of the registered commands against /repo; debugging runs (--only) and runs against a scratch worktree
    # (seed evaluation, VERIF_REPO) leave their record under replays/ (not committed) so that they never replace it
    evdir = os.path.join(VERIF, "evidence") if os.path.realpath(REPO) == "/repo" and not getattr(ctx, "only", None) else os.path.join(VERIF, "replays", "scratch-evidence")
    os.makedirs(evdir, exist_ok=True)
    with open(os.path.join(evdir, ctx.pid + ".json"), "w", encoding="utf8") as f:
        json.dump(ev, f, ensure_ascii=True, indent=1, default=repr)
        f.write("\n")
    for line in ctx.known_lines:
        print("KNOWN-FINDING: property=%s %s" % (ctx.pid, line))
    for name, st in ctx.subs.items():
        print("  %-28s evaluations=%-8d nontrivial=%-8d failures=%d  %.1fs" % (
            name, st.evaluations, len(st.nontrivial), len(st.failures), st.notes.get("wall_s", 0)))
    if harness:
        for h in harness[:5]:
            print("HARNESS-ERROR: " + h, file=sys.stderr)
        print("harness error(s): %d - exit 2" % len(harness))
        return 2
    if vio_lines:
        for path, name, msg in vio_lines:
            print("  violated sub-check %s: %s" % (name, msg[:500]))
            print("VIOLATION property=%s replay=%s" % (ctx.pid, path))
        return 1
    print("OK property=%s tier=%s seed=%s evaluations=%d distinct_nontrivial=%d wall=%.1fs" % (
        ctx.pid, ctx.tier, ctx.seed, total.evaluations, len(total.nontrivial), time.time() - ctx.t0))
    return 0


def first_diff(a, b, path="$"):
    """first differing place of two JSON-like values: (path, a_there, b_there) or None"""
    if type(a) != type(b):
        return (path, a, b)
    if isinstance(a, dict):
        for k in sorted(set(a) | set(b), key=str):
            if k not in a:
                return (path + "." + str(k), "<absent>", b[k])
            if k not in b:
                return (path + "." + str(k), a[k], "<absent>")
            d = first_diff(a[k], b[k], path + "." + str(k))
            if d:
                return d
        return None
    if isinstance(a, (list, tuple)):
        for i, (x, y) in enumerate(zip(a, b)):
            d = first_diff(x, y, "%s[%d]" % (path, i))
            if d:
                return d
        if len(a) != len(b):
            return (path + ".length", len(a), len(b))
        return None
    return None if a == b else (path, a, b)


def diff_text(a, b, what_a="got", what_b="expected"):
    d = first_diff(a, b)
    if not d:
        return "equal"
    return "at %s: %s %s, %s %s" % (d[0], what_a, short(d[1], 300), what_b, short(d[2], 300))
