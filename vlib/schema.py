"""R9 - hand-written structural validator for the Cucumber Messages envelopes this library emits."""
from __future__ import annotations

import glob
import json
import os

from .common import REPO, HarnessError

KEYWORD_TYPES = {"Unknown", "Context", "Action", "Outcome", "Conjunction"}
STEP_TYPES = {"Unknown", "Context", "Action", "Outcome"}
MEDIA_TYPES = {"text/x.cucumber.gherkin+plain", "text/x.cucumber.gherkin+markdown"}


class Bad(Exception):
    pass


def _obj(x, path, required, optional=()):
    if not isinstance(x, dict):
        raise Bad("%s: expected an object, got %r" % (path, type(x).__name__))
    for k in required:
        if k not in x:
            raise Bad("%s: required field %r missing" % (path, k))
    for k in x:
        if k not in required and k not in optional:
            raise Bad("%s: unknown field %r" % (path, k))
        if x[k] is None:
            raise Bad("%s.%s is null (absent optional fields must be omitted)" % (path, k))


def _str(x, path):
    if not isinstance(x, str):
        raise Bad("%s: expected a string, got %r" % (path, x))


def _int(x, path):
    if not isinstance(x, int) or isinstance(x, bool):
        raise Bad("%s: expected an integer, got %r" % (path, x))


def _list(x, path, f):
    if not isinstance(x, list):
        raise Bad("%s: expected a list, got %r" % (path, type(x).__name__))
    for i, v in enumerate(x):
        f(v, "%s[%d]" % (path, i))


def location(x, p):
    _obj(x, p, ["line"], ["column"])
    _int(x["line"], p + ".line")
    if x["line"] < 1:
        raise Bad("%s.line = %r" % (p, x["line"]))
    if "column" in x:
        _int(x["column"], p + ".column")
        if x["column"] < 1:
            raise Bad("%s.column = %r" % (p, x["column"]))


def tag(x, p):
    _obj(x, p, ["location", "name", "id"])
    location(x["location"], p + ".location")
    _str(x["name"], p + ".name")
    _str(x["id"], p + ".id")


def cell(x, p):
    _obj(x, p, ["location", "value"])
    location(x["location"], p + ".location")
    _str(x["value"], p + ".value")


def row(x, p):
    _obj(x, p, ["location", "cells", "id"])
    location(x["location"], p + ".location")
    _list(x["cells"], p + ".cells", cell)
    _str(x["id"], p + ".id")


def step(x, p):
    _obj(x, p, ["id", "location", "keyword", "text"], ["keywordType", "docString", "dataTable"])
    _str(x["id"], p + ".id")
    location(x["location"], p + ".location")
    _str(x["keyword"], p + ".keyword")
    _str(x["text"], p + ".text")
    if "keywordType" in x and x["keywordType"] not in KEYWORD_TYPES:
        raise Bad("%s.keywordType = %r" % (p, x["keywordType"]))
    if "docString" in x:
        d = x["docString"]
        _obj(d, p + ".docString", ["location", "content", "delimiter"], ["mediaType"])
        location(d["location"], p + ".docString.location")
        for k in ("content", "delimiter"):
            _str(d[k], p + ".docString." + k)
        if "mediaType" in d:
            _str(d["mediaType"], p + ".docString.mediaType")
    if "dataTable" in x:
        t = x["dataTable"]
        _obj(t, p + ".dataTable", ["location", "rows"])
        location(t["location"], p + ".dataTable.location")
        _list(t["rows"], p + ".dataTable.rows", row)


def _titled(x, p, extra_req, extra_opt=()):
    _obj(x, p, ["location", "keyword", "name", "description"] + extra_req, extra_opt)
    location(x["location"], p + ".location")
    for k in ("keyword", "name", "description"):
        _str(x[k], p + "." + k)
    if "id" in x:
        _str(x["id"], p + ".id")
    if "tags" in x:
        _list(x["tags"], p + ".tags", tag)


def background(x, p):
    _titled(x, p, ["id", "steps"])
    _list(x["steps"], p + ".steps", step)


def examples(x, p):
    _titled(x, p, ["id", "tags", "tableBody"], ["tableHeader"])
    if "tableHeader" in x:
        row(x["tableHeader"], p + ".tableHeader")
    _list(x["tableBody"], p + ".tableBody", row)


def scenario(x, p):
    _titled(x, p, ["id", "tags", "steps", "examples"])
    _list(x["steps"], p + ".steps", step)
    _list(x["examples"], p + ".examples", examples)


def _child(allowed):
    def f(x, p):
        if not isinstance(x, dict) or len(x) != 1 or next(iter(x)) not in allowed:
            raise Bad("%s: child must have exactly one of %r, got %r" % (p, allowed, list(x) if isinstance(x, dict) else x))
        k = next(iter(x))
        {"rule": rule, "background": background, "scenario": scenario}[k](x[k], p + "." + k)
    return f


def rule(x, p):
    _titled(x, p, ["id", "tags", "children"])
    _list(x["children"], p + ".children", _child(("background", "scenario")))


def feature(x, p):
    _titled(x, p, ["tags", "language", "children"])
    _str(x["language"], p + ".language")
    _list(x["children"], p + ".children", _child(("rule", "background", "scenario")))


def comment(x, p):
    _obj(x, p, ["location", "text"])
    location(x["location"], p + ".location")
    _str(x["text"], p + ".text")


def gherkin_document(x, p):
    _obj(x, p, ["comments"], ["uri", "feature"])
    if "uri" in x:
        _str(x["uri"], p + ".uri")
    if "feature" in x:
        feature(x["feature"], p + ".feature")
    _list(x["comments"], p + ".comments", comment)


def pickle_step(x, p):
    _obj(x, p, ["astNodeIds", "id", "text"], ["type", "argument"])
    _list(x["astNodeIds"], p + ".astNodeIds", _str)
    if not x["astNodeIds"]:
        raise Bad(p + ".astNodeIds is empty")
    _str(x["id"], p + ".id")
    _str(x["text"], p + ".text")
    if "type" in x and x["type"] not in STEP_TYPES:
        raise Bad("%s.type = %r" % (p, x["type"]))
    if "argument" in x:
        a = x["argument"]
        _obj(a, p + ".argument", [], ["docString", "dataTable"])
        if len(a) != 1:
            raise Bad("%s.argument must carry exactly one of docString / dataTable" % p)
        if "docString" in a:
            _obj(a["docString"], p + ".argument.docString", ["content"], ["mediaType"])
            _str(a["docString"]["content"], p + ".argument.docString.content")
            if "mediaType" in a["docString"]:
                _str(a["docString"]["mediaType"], p + ".argument.docString.mediaType")
        else:
            _obj(a["dataTable"], p + ".argument.dataTable", ["rows"])

            def prow(r, pp):
                _obj(r, pp, ["cells"])

                def pcell(c, ppp):
                    _obj(c, ppp, ["value"])
                    _str(c["value"], ppp + ".value")
                _list(r["cells"], pp + ".cells", pcell)
            _list(a["dataTable"]["rows"], p + ".argument.dataTable.rows", prow)


def pickle(x, p):
    _obj(x, p, ["id", "uri", "name", "language", "steps", "tags", "astNodeIds"])
    for k in ("id", "uri", "name", "language"):
        _str(x[k], p + "." + k)
    _list(x["steps"], p + ".steps", pickle_step)

    def ptag(t, pp):
        _obj(t, pp, ["name", "astNodeId"])
        _str(t["name"], pp + ".name")
        _str(t["astNodeId"], pp + ".astNodeId")
    _list(x["tags"], p + ".tags", ptag)
    _list(x["astNodeIds"], p + ".astNodeIds", _str)
    if not x["astNodeIds"]:
        raise Bad(p + ".astNodeIds is empty")


def source(x, p):
    _obj(x, p, ["uri", "data", "mediaType"])
    _str(x["uri"], p + ".uri")
    _str(x["data"], p + ".data")
    if x["mediaType"] not in MEDIA_TYPES:
        raise Bad("%s.mediaType = %r" % (p, x["mediaType"]))


def parse_error(x, p):
    _obj(x, p, ["source", "message"])
    _obj(x["source"], p + ".source", [], ["uri", "location"])
    if "uri" in x["source"]:
        _str(x["source"]["uri"], p + ".source.uri")
    if "location" in x["source"]:
        location(x["source"]["location"], p + ".source.location")
    _str(x["message"], p + ".message")


KINDS = {"source": source, "gherkinDocument": gherkin_document, "pickle": pickle, "parseError": parse_error}


def envelope(x):
    """raises Bad(message) when x is not a well-formed envelope of one of the four kinds; returns the kind"""
    if not isinstance(x, dict) or len(x) != 1 or next(iter(x)) not in KINDS:
        raise Bad("envelope must have exactly one of %r, got %r" % (sorted(KINDS), list(x) if isinstance(x, dict) else x))
    k = next(iter(x))
    KINDS[k](x[k], "$." + k)
    try:
        if json.loads(json.dumps(x)) != x:
            raise Bad("envelope does not survive a JSON round trip")
    except (TypeError, ValueError) as e:
        raise Bad("envelope is not JSON-serialisable: %s" % e)
    return k


_cal = False


def calibrate():
    """every line of every golden ndjson file must pass (else the validator is wrong: exit 2)"""
    global _cal
    if _cal:
        return 0
    n = 0
    for f in sorted(glob.glob(os.path.join(REPO, "testdata", "*", "*.ndjson"))):
        if ".md." in os.path.basename(f):
            continue  # Markdown goldens come from the JavaScript implementation only
        for line in open(f, encoding="utf8"):
            if line.strip():
                try:
                    envelope(json.loads(line))
                except Bad as e:
                    raise HarnessError("shape validator rejects golden line of %s: %s" % (os.path.basename(f), e))
                n += 1
    if n < 100:
        raise HarnessError("golden ndjson files not found")
    _cal = True
    return n
