"""Reference components written from the property statements (not from the code under test):
R1 repository data, R2 line classifier, R3 cell splitter, tag splitter, doc-string content rule."""
from __future__ import annotations

import json
import os
import re
import sys

from .common import REPO

# ---------------------------------------------------------------- R1: data
MASTER_LANGUAGES = os.path.join(REPO, "gherkin-languages.json")
PACKAGE_LANGUAGES = os.path.join(REPO, "python", "gherkin", "gherkin-languages.json")
with open(MASTER_LANGUAGES, encoding="utf8") as _f:
    DIALECTS = json.load(_f)

TITLE_CATS = ["feature", "rule", "background", "scenario", "scenarioOutline", "examples"]
STEP_CATS = ["given", "when", "then", "and", "but"]
STEP_TYPE = {"given": "Context", "when": "Action", "then": "Outcome", "and": "Conjunction", "but": "Conjunction"}
ROLE_OF_CAT = {"feature": "FeatureLine", "rule": "RuleLine", "background": "BackgroundLine",
               "scenario": "ScenarioLine", "scenarioOutline": "ScenarioLine", "examples": "ExamplesLine"}

KINDS = ["EOF", "Empty", "Comment", "TagLine", "FeatureLine", "RuleLine", "BackgroundLine", "ScenarioLine",
         "ExamplesLine", "StepLine", "DocStringSeparator", "TableRow", "Language", "Other"]


def is_ws(ch: str) -> bool:
    return ch.isspace()


def is_blank(ch: str) -> bool:
    """whitespace other than the line feed"""
    return ch.isspace() and ch != "\n"


WS_CHARS = [chr(c) for c in range(sys.maxunicode + 1) if chr(c).isspace()]
BLANK_CHARS = [c for c in WS_CHARS if c != "\n"]


def lead_ws(s: str) -> int:
    n = 0
    while n < len(s) and s[n].isspace():
        n += 1
    return n


def trim(s: str) -> str:
    a = lead_ws(s)
    b = len(s)
    while b > a and s[b - 1].isspace():
        b -= 1
    return s[a:b]


def step_keywords(dialect: str):
    """[(keyword, category)] in given/when/then/and/but order"""
    d = DIALECTS[dialect]
    return [(k, c) for c in STEP_CATS for k in d[c]]


def step_keyword_type(dialect: str, keyword: str) -> str:
    cats = [c for k, c in step_keywords(dialect) if k == keyword]
    types = [STEP_TYPE[c] for c in cats]
    return types[0] if len(types) == 1 else "Unknown"


# ---------------------------------------------------------------- R3: cells
def split_units(row: str):
    """pass 1: [(unit, offset)] where a backslash and the character after it form one unit"""
    units = []
    i = 0
    while i < len(row):
        if row[i] == "\\":
            units.append((row[i:i + 2], i))
            i += 2
        else:
            units.append((row[i], i))
            i += 1
    return units


def _unescape(u: str) -> str:
    if u == "\\n":
        return "\n"
    if u == "\\|":
        return "|"
    if u == "\\\\":
        return "\\"
    return u


def ref_cells(row: str):
    """row: the line with surrounding whitespace removed.  -> [(value, 1-based column within row)]"""
    units = split_units(row)
    pipes = [i for i, (u, _) in enumerate(units) if u == "|"]
    cells = []
    for a, b in zip(pipes, pipes[1:]):
        vals = [(ch, off) for u, off in units[a + 1:b] for ch in _unescape(u)]
        lo = 0
        while lo < len(vals) and is_blank(vals[lo][0]):
            lo += 1
        hi = len(vals)
        while hi > lo and is_blank(vals[hi - 1][0]):
            hi -= 1
        text = "".join(v for v, _ in vals[lo:hi])
        col = (vals[lo][1] if lo < len(vals) else units[b][1]) + 1
        cells.append((text, col))
    return cells


def ref_row(line: str):
    """line: raw physical line (with or without its LF). -> [(value, column in the line)]"""
    ind = lead_ws(line)
    return [(t, c + ind) for t, c in ref_cells(trim(line))]


def escape_cell(text: str) -> str:
    return text.replace("\\", "\\\\").replace("|", "\\|").replace("\n", "\\n")


# ---------------------------------------------------------------- tags
class TagError(Exception):
    def __init__(self, column):
        self.column = column


def ref_tags(line: str):
    """raw tag line -> [(name, column)]; raises TagError(column of the offending '@')."""
    ind = lead_ws(line)
    t = trim(line)
    cut = None
    for i in range(len(t) - 1):
        if t[i].isspace() and t[i + 1] == "#":
            cut = i
            break
    if cut is not None:
        t = t[:cut]
    pos = [j for j, c in enumerate(t) if c == "@"]
    out = []
    for a, b in zip(pos, pos[1:] + [len(t)]):
        piece = trim(t[a + 1:b])
        if any(c.isspace() for c in piece):
            raise TagError(ind + a + 1)
        out.append(("@" + piece, ind + a + 1))
    return out


# ---------------------------------------------------------------- doc strings
def unescape_delim(text: str, delim: str) -> str:
    esc = "".join("\\" + c for c in delim)
    return text.replace(esc, delim)


def strip_eol(line: str) -> str:
    """remove the line terminator (LF, or CR LF) - the code removes every trailing CR/LF"""
    return line.rstrip("\r\n")


def doc_content_line(raw: str, k: int, delim: str) -> str:
    """raw physical line (terminator included or not), k = indentation of the opening delimiter"""
    ind = lead_ws(raw)
    text = raw[k:] if k <= ind else raw[ind:]
    return unescape_delim(strip_eol(text), delim)


# ---------------------------------------------------------------- R2: lexer
LANGUAGE_HEADER = re.compile(r"^\s*#\s*language\s*:\s*([a-zA-Z\-_]+)\s*$")


class RefToken:
    __slots__ = ("kind", "line", "column", "keyword", "keyword_type", "text", "items", "dialect", "raw", "error")

    def __init__(self, kind, line, column=None, keyword=None, keyword_type=None, text=None, items=None,
                 dialect=None, raw=None, error=None):
        self.kind = kind
        self.line = line
        self.column = column
        self.keyword = keyword
        self.keyword_type = keyword_type
        self.text = text
        self.items = items or []
        self.dialect = dialect
        self.raw = raw
        self.error = error

    def __repr__(self):
        return "RefToken(%s@%s:%s %r %r)" % (self.kind, self.line, self.column, self.keyword, self.text)


class RefLexer:
    """Stateful line classifier: dialect in force, active doc-string delimiter and its indentation."""

    def __init__(self, default="en"):
        self.default = default
        self.reset()

    def reset(self):
        self.dialect = self.default
        self.delim = None
        self.delim_indent = 0

    # each test returns a RefToken or None; `raw` is the physical line incl. terminator, None for EOF
    def test(self, kind, raw, lineno):
        if raw is None:
            return RefToken("EOF", lineno, raw=None, dialect=self.dialect) if kind == "EOF" else None
        if kind == "EOF":
            return None
        ind = lead_ws(raw)
        t = raw[ind:]  # left-trimmed, terminator still there
        D = DIALECTS[self.dialect]
        mk = lambda **kw: RefToken(kind, lineno, dialect=self.dialect, raw=raw, **kw)
        if kind == "Empty":
            return mk(column=1, text=None) if t == "" else None
        if kind == "Comment":
            return mk(column=1, text=strip_eol(raw)) if t.startswith("#") else None
        if kind == "TagLine":
            if not t.startswith("@"):
                return None
            try:
                items = ref_tags(raw)
            except TagError as e:
                return mk(error=("tag", e.column))
            return mk(column=ind + 1, items=items)
        if kind in ("FeatureLine", "RuleLine", "BackgroundLine", "ScenarioLine", "ExamplesLine"):
            cats = {"FeatureLine": ["feature"], "RuleLine": ["rule"], "BackgroundLine": ["background"],
                    "ScenarioLine": ["scenario", "scenarioOutline"], "ExamplesLine": ["examples"]}[kind]
            for c in cats:
                for k in D[c]:
                    if t.startswith(k + ":"):
                        return mk(column=ind + 1, keyword=k, text=trim(t[len(k) + 1:]))
            return None
        if kind == "StepLine":
            for k, c in step_keywords(self.dialect):
                if t.startswith(k):
                    return mk(column=ind + 1, keyword=k, keyword_type=step_keyword_type(self.dialect, k),
                              text=trim(t[len(k):]))
            return None
        if kind == "DocStringSeparator":
            if self.delim is None:
                for d in ('"""', "```"):
                    if t.startswith(d):
                        self.delim = d
                        self.delim_indent = ind
                        return mk(column=ind + 1, keyword=d, text=trim(t[3:]))
                return None
            if t.startswith(self.delim):
                d = self.delim
                self.delim = None
                self.delim_indent = 0
                return mk(column=ind + 1, keyword=d, text=None)
            return None
        if kind == "TableRow":
            if not t.startswith("|"):
                return None
            return mk(column=ind + 1, items=ref_row(raw))
        if kind == "Language":
            m = LANGUAGE_HEADER.match(t)
            if not m:
                return None
            name = m.group(1)
            if name not in DIALECTS:
                return mk(error=("lang", ind + 1, name))
            self.dialect = name
            return mk(column=ind + 1, text=name)
        if kind == "Other":
            if self.delim is not None:
                return mk(column=1, text=doc_content_line(raw, self.delim_indent, self.delim))
            return mk(column=1, text=strip_eol(raw))  # free text keeps its indentation
        raise ValueError(kind)


def split_lines(text: str):
    """physical lines as the scanner sees them: split after every LF; a last piece without LF counts if non-empty"""
    out = []
    i = 0
    while i < len(text):
        j = text.find("\n", i)
        if j < 0:
            out.append(text[i:])
            break
        out.append(text[i:j + 1])
        i = j + 1
    return out
