"""./vcheck <id> --tier quick|thorough [--replay FILE]"""
from __future__ import annotations

import argparse
import atexit
import glob
import importlib
import json
import os
import shutil
import sys
import tempfile
import traceback

from . import common
from .common import Ctx, HarnessError, NullStats, Stats, Violation, finish, guarded


def replay_file(mod, path):
    with open(path, encoding="utf8") as f:
        body = json.load(f)
    case = body["case"] if "case" in body and "property" in body else body
    try:
        guarded(mod.replay, case, NullStats())
    except Violation as v:
        return v.message
    return None


def main(argv=None):
    ap = argparse.ArgumentParser()
    ap.add_argument("pid")
    ap.add_argument("--tier", default="quick", choices=["quick", "thorough"])
    ap.add_argument("--replay")
    ap.add_argument("--only", help="comma separated sub-check names (debugging aid; evidence then covers only those)")
    args = ap.parse_args(argv)
    tier = os.environ.get("VERIF_TIER") or args.tier
    if tier not in ("quick", "thorough"):
        tier = args.tier
    try:
        seed = int(os.environ.get("VERIF_SEED", "1"))
    except ValueError:
        seed = 1
    pid = args.pid.upper()

    replay_path = os.path.abspath(args.replay) if args.replay else None
    # TokenScanner(str) probes the file system (finding F1): work in a fresh empty directory.
    work = tempfile.mkdtemp(prefix="vcheck-%s-" % pid)
    atexit.register(shutil.rmtree, work, True)
    os.chdir(work)
    ppid = os.getpid()

    try:
        mod = importlib.import_module("checks." + pid.lower())
    except Exception:
        traceback.print_exc()
        print("harness error: cannot import check module / repository code - exit 2")
        return 2

    try:
        # both matchers live in one process in real use (the repository's own test suite does this): constructing and using the
        # Markdown matcher first must not change anything the classic pipeline does afterwards
        from gherkin.token_matcher_markdown import GherkinInMarkdownTokenMatcher as _MD
        from gherkin.token import Token as _T
        from gherkin.gherkin_line import GherkinLine as _L
        for _d in ("en", "fr"):
            _m = _MD(_d)
            for _line in ("# Feature: f\n", "* Given x\n", "  | a |\n", "````md\n", "`@t`\n"):
                for _meth in ("match_FeatureLine", "match_StepLine", "match_TableRow", "match_DocStringSeparator", "match_TagLine"):
                    getattr(_m, _meth)(_T(_L(_line, 1), {"line": 1}))
    except Exception:
        pass
    if replay_path:
        try:
            msg = replay_file(mod, replay_path)
        except HarnessError as h:
            print("HARNESS-ERROR: %s" % h, file=sys.stderr)
            return 2
        if msg:
            print("  replay still fails: %s" % msg[:800])
            print("VIOLATION property=%s replay=%s" % (pid, replay_path))
            return 1
        print("OK property=%s replay holds: %s" % (pid, replay_path))
        return 0

    ctx = Ctx(pid, tier, seed)
    ctx.only = set(args.only.split(",")) if args.only else None
    try:
        # seconds-long regression tier: every saved minimal failure must hold on this tree
        reg = Stats()
        for path in sorted(glob.glob(os.path.join(common.VERIF, "corpus", "regressions", pid, "*.json"))):
            msg = replay_file(mod, path)
            reg.evaluations += 1
            if msg:
                with open(path, encoding="utf8") as f:
                    body = json.load(f)
                reg.fail(body.get("case", body), "regression %s: %s" % (os.path.basename(path), msg))
        if reg.evaluations:
            ctx.add("regressions", reg)
        mod.run(ctx)
    except HarnessError as h:
        print("HARNESS-ERROR: %s" % h, file=sys.stderr)
        return 2
    except Exception:
        if os.getpid() != ppid:
            raise
        traceback.print_exc()
        print("harness error - exit 2")
        return 2
    return finish(ctx)


if __name__ == "__main__":
    sys.exit(main())
