"""R7 - document model: Hypothesis strategies draw a JSON-able document description; the renderer walks it once and
emits the source text *and* the intended AST (locations, ids in canonical order), comments and token listing.

Line-level facts (which keyword a line reports, trimmed text, tag and cell items) come from the reference lexer
(vlib/refs.py); structure, order, positions and ids come from the model."""
from __future__ import annotations

from hypothesis import assume
from hypothesis import strategies as st

from .berp import grammar
from .refs import (DIALECTS, KINDS, LANGUAGE_HEADER, RefLexer, STEP_CATS, is_blank, lead_ws, step_keywords, trim)

STRUCTURAL = ["TagLine", "FeatureLine", "RuleLine", "BackgroundLine", "ScenarioLine", "ExamplesLine", "StepLine",
              "DocStringSeparator", "TableRow"]


class Unsound(Exception):
    """the drawn model would render a line whose kind is not the intended one - the case is discarded (counted)"""


# ------------------------------------------------------------------------------------------------ renderer
def cf_kinds(dialect, physical):
    """structural kinds this line would satisfy in `dialect`, whatever the parser state"""
    probe = RefLexer(dialect)
    out = []
    for k in STRUCTURAL:
        probe.delim = None
        try:
            if probe.test(k, physical, 0) is not None:
                out.append(k)
        except Exception:
            out.append(k)
    return out


class Render:
    def __init__(self, doc):
        self.doc = doc
        self.eol = doc.get("eol", "\n")
        self.lex = RefLexer(doc.get("default", "en"))
        self.raw_lines = []
        self.tokens = []
        self.comments = []
        self.kinds = []
        self.title_node = None   # AST node whose description is being collected
        self.desc_open = False
        self.others = []
        self.in_title = False
        self.ast = None
        self.render()

    # -- low level
    def context_free_kinds(self, physical):
        return cf_kinds(self.lex.dialect, physical)

    def emit(self, raw, kind):
        if "\n" in raw:
            raise Unsound("line feed inside a line")
        lineno = len(self.raw_lines) + 1
        physical = raw + self.eol
        if kind in STRUCTURAL or kind in ("Language",):
            self.close_title()
        tok = self.lex.test(kind, physical, lineno)
        if tok is None or tok.error:
            raise Unsound("line %r is not a %s" % (raw, kind))
        if kind in STRUCTURAL:
            cf = self.context_free_kinds(physical)
            if cf != [kind]:
                raise Unsound("line %r is ambiguous: %r" % (raw, cf))
        self.raw_lines.append(raw)
        self.tokens.append(tok)
        self.kinds.append(kind)
        return tok

    def misc(self, m, expected=()):
        """a blank or comment (or, inside a title context, free text) line; `expected` = structural kinds that would end the context"""
        raw = m["raw"]
        physical = raw + self.eol
        t = raw[lead_ws(raw):] if raw.strip() else ""
        if trim(raw) == "":
            if self.in_title and self.desc_open:
                tok = self.emit(raw, "Other")
                self.others.append(tok.text)
            else:
                self.emit(raw, "Empty")
            return
        if t.startswith("#"):
            if LANGUAGE_HEADER.match(physical[lead_ws(physical):]) and not self.tokens_structural_seen():
                raise Unsound("comment would be read as a language header")
            tok = self.emit(raw, "Comment")
            self.comments.append({"location": {"line": tok.line, "column": 1}, "text": tok.text})
            if self.in_title:
                self.desc_open = True
            return
        # free text: only in a title context, and it must not be anything the grammar expects here
        if not self.in_title:
            raise Unsound("free text outside a description")
        cf = self.context_free_kinds(physical)
        if any(k in expected for k in cf):
            raise Unsound("description line %r would be read as %r" % (raw, cf))
        if raw.endswith("\r"):
            raise Unsound("ambiguous line ending")
        tok = self.emit(raw, "Other")
        self.others.append(tok.text)
        self.desc_open = True

    def tokens_structural_seen(self):
        return any(k not in ("Empty", "Comment") for k in self.kinds)

    def open_title(self, node):
        self.title_node = node
        self.in_title = True
        self.desc_open = False
        self.others = []

    def close_title(self):
        if self.title_node is not None:
            oth = list(self.others)
            while oth and trim(oth[-1]) == "":
                oth.pop()
            self.title_node["description"] = "\n".join(oth)
        self.title_node = None
        self.in_title = False
        self.desc_open = False
        self.others = []

    # -- structure
    def render(self):
        d = self.doc
        for m in d.get("pre", []):
            self.misc(m)
        if d.get("header") is not None:
            tok = self.emit(d["header"], "Language")
            if tok.text != d["lang"]:
                raise Unsound("header names %r" % tok.text)
            for m in d.get("pre2", []):
                self.misc(m)
        ast = {}
        f = d.get("feature")
        if f is not None:
            ast["feature"] = self.feature(f)
        for m in d.get("post", []):
            self.misc(m, self.ctx_expected)
        self.close_title()
        if d.get("final_eol", True) or not self.raw_lines or self.raw_lines[-1] == "":
            # (an empty last line only exists when it is terminated)
            self.text = "".join(r + self.eol for r in self.raw_lines)
        else:
            self.text = self.eol.join(self.raw_lines)
        ast["comments"] = self.comments
        self.ast = ast
        assign_ids(ast)
        self.nlines = len(self.raw_lines)

    def taglines(self, tls):
        tags = []
        for tl in tls:
            for m in tl.get("pre", []):
                self.misc(m, self.ctx_expected)
            raw = tl["indent"]
            for i, t in enumerate(tl["tags"]):
                raw += t + (tl["seps"][i] if i < len(tl["tags"]) - 1 else "")
            raw += tl.get("trail", "")
            if tl.get("comment"):
                raw += " " + tl["comment"]
            tok = self.emit(raw, "TagLine")
            if [n for n, _ in tok.items] != tl["tags"]:
                raise Unsound("tags %r read as %r" % (tl["tags"], tok.items))
            for name, col in tok.items:
                tags.append({"id": None, "location": {"line": tok.line, "column": col}, "name": name})
        return tags

    def title(self, t, kind):
        for m in t.get("pre", []):
            self.misc(m, self.ctx_expected)
        raw = t["indent"] + t["kw"] + ":" + t["sep"] + t["name"] + t["trail"]
        tok = self.emit(raw, kind)
        return tok

    def desc(self, t, expected):
        self.ctx_expected = expected
        for m in t.get("desc", []):
            self.misc(m, expected)

    ctx_expected = ()

    def feature(self, f):
        tags = self.taglines(f.get("tags", []))
        tok = self.title(f, "FeatureLine")
        node = {"tags": tags, "location": {"line": tok.line, "column": tok.column}, "language": self.lex.dialect,
                "keyword": tok.keyword, "name": tok.text, "description": "", "children": []}
        self.open_title(node)
        self.desc(f, EXPECTED["feature"])
        if f.get("background"):
            node["children"].append({"background": self.background(f["background"])})
        for sc in f.get("scenarios", []):
            node["children"].append({"scenario": self.scenario(sc)})
        for r in f.get("rules", []):
            node["children"].append({"rule": self.rule(r)})
        return node

    def rule(self, r):
        tags = self.taglines(r.get("tags", []))
        tok = self.title(r, "RuleLine")
        node = {"id": None, "tags": tags, "location": {"line": tok.line, "column": tok.column}, "keyword": tok.keyword,
                "name": tok.text, "description": "", "children": []}
        self.open_title(node)
        self.desc(r, EXPECTED["rule"])
        if r.get("background"):
            node["children"].append({"background": self.background(r["background"])})
        for sc in r.get("scenarios", []):
            node["children"].append({"scenario": self.scenario(sc)})
        return node

    def background(self, b):
        tok = self.title(b, "BackgroundLine")
        node = {"id": None, "location": {"line": tok.line, "column": tok.column}, "keyword": tok.keyword, "name": tok.text,
                "description": "", "steps": []}
        self.open_title(node)
        self.desc(b, EXPECTED["background"])
        node["steps"] = [self.step(s) for s in b.get("steps", [])]
        return node

    def scenario(self, s):
        tags = self.taglines(s.get("tags", []))
        tok = self.title(s, "ScenarioLine")
        node = {"id": None, "tags": tags, "location": {"line": tok.line, "column": tok.column}, "keyword": tok.keyword,
                "name": tok.text, "description": "", "steps": [], "examples": []}
        self.open_title(node)
        self.desc(s, EXPECTED["scenario"])
        node["steps"] = [self.step(x) for x in s.get("steps", [])]
        node["examples"] = [self.examples(e) for e in s.get("examples", [])]
        return node

    def examples(self, e):
        tags = self.taglines(e.get("tags", []))
        tok = self.title(e, "ExamplesLine")
        node = {"id": None, "tags": tags, "location": {"line": tok.line, "column": tok.column}, "keyword": tok.keyword,
                "name": tok.text, "description": "", "tableBody": []}
        self.open_title(node)
        self.desc(e, EXPECTED["examples"])
        if e.get("rows"):
            rows = self.rows(e["rows"])
            node["tableHeader"] = rows[0]
            node["tableBody"] = rows[1:]
        return node

    def rows(self, rows):
        out = []
        width = None
        for r in rows:
            for m in r.get("pre", []):
                self.misc(m, self.ctx_expected)
            raw = r["indent"] + "|" + "".join(c["l"] + c["src"] + c["r"] + "|" for c in r["cells"]) + r.get("trail", "")
            tok = self.emit(raw, "TableRow")
            if len(tok.items) != len(r["cells"]):
                raise Unsound("cell sources changed the cell count")
            out.append({"id": None, "location": {"line": tok.line, "column": tok.column},
                        "cells": [{"location": {"line": tok.line, "column": c}, "value": v} for v, c in tok.items]})
        return out

    def step(self, s):
        self.ctx_expected = ()
        for m in s.get("pre", []):
            self.misc(m, self.ctx_expected)
        raw = s["indent"] + s["kw"] + s["text"] + s.get("trail", "")
        tok = self.emit(raw, "StepLine")
        node = {"id": None, "location": {"line": tok.line, "column": tok.column}, "keyword": tok.keyword,
                "keywordType": tok.keyword_type, "text": tok.text}
        a = s.get("arg")
        if a and a["t"] == "table":
            rows = self.rows(a["rows"])
            node["dataTable"] = {"location": rows[0]["location"], "rows": rows}
        elif a and a["t"] == "doc":
            for m in a.get("pre", []):
                self.misc(m)
            tok = self.emit(a["indent"] + a["delim"] + a["media"], "DocStringSeparator")
            lines = []
            for raw in a["lines"]:
                t = raw[lead_ws(raw):]
                if t.startswith(a["delim"]) or raw.endswith("\r"):
                    raise Unsound("content line would close the doc string / ambiguous line ending")
                lines.append(self.emit(raw, "Other").text)
            self.emit(a["close_indent"] + a["delim"] + a.get("close_trail", ""), "DocStringSeparator")
            ds = {"location": {"line": tok.line, "column": tok.column}, "content": "\n".join(lines), "delimiter": a["delim"]}
            if tok.text:
                ds["mediaType"] = tok.text
            node["docString"] = ds
        return node

    # -- derived views
    def token_listing(self):
        out = []
        for t in self.tokens:
            kw = ""
            if t.keyword:
                kw = "(" + (t.keyword_type or "") + ")" + t.keyword
            items = ",".join("%d:%s" % (c, v) for v, c in t.items)
            out.append("(%d:%d)%s:%s/%s/%s" % (t.line, t.column, t.kind, kw, t.text or "", items))
        out.append("EOF")
        return "\n".join(out)


def assign_ids(ast):
    """canonical id order: children before their parent; table rows, steps, examples, tags, then the owning node"""
    n = [0]

    def gid():
        n[0] += 1
        return str(n[0] - 1)

    def step(s):
        if "dataTable" in s:
            for r in s["dataTable"]["rows"]:
                r["id"] = gid()
        s["id"] = gid()

    def background(b):
        for s in b["steps"]:
            step(s)
        b["id"] = gid()

    def scenario(sc):
        for s in sc["steps"]:
            step(s)
        for ex in sc["examples"]:
            if "tableHeader" in ex:
                ex["tableHeader"]["id"] = gid()
            for r in ex["tableBody"]:
                r["id"] = gid()
            for t in ex["tags"]:
                t["id"] = gid()
            ex["id"] = gid()
        for t in sc["tags"]:
            t["id"] = gid()
        sc["id"] = gid()

    f = ast.get("feature")
    if f:
        for ch in f["children"]:
            if "background" in ch:
                background(ch["background"])
            elif "scenario" in ch:
                scenario(ch["scenario"])
            else:
                r = ch["rule"]
                for c2 in r["children"]:
                    if "background" in c2:
                        background(c2["background"])
                    else:
                        scenario(c2["scenario"])
                for t in r["tags"]:
                    t["id"] = gid()
                r["id"] = gid()
        for t in f["tags"]:
            t["id"] = gid()
    return n[0]


def _expected_sets():
    """structural kinds that end a description, per context - read off the grammar automaton"""
    G = grammar()

    def after(kinds):
        nodes = [G.begin]
        for k in kinds:
            nxt = {}
            for nd in nodes:
                for ev, t, eff in G.options(nd, k):
                    nxt[t] = None
            nodes = list(nxt)
        fol = set()
        for nd in nodes:
            fol |= G.follow(nd)
        return tuple(sorted(k for k in fol if k in STRUCTURAL))
    return {
        "feature": after(["FeatureLine", "Other"]),
        "rule": after(["FeatureLine", "RuleLine", "Other"]),
        "background": after(["FeatureLine", "BackgroundLine", "Other"]),
        "scenario": after(["FeatureLine", "ScenarioLine", "Other"]),
        "examples": after(["FeatureLine", "ScenarioLine", "ExamplesLine", "Other"]),
    }


EXPECTED = _expected_sets()


def render(doc):
    """-> Render (text, ast, tokens, ...) ; raises Unsound"""
    return Render(doc)


# ------------------------------------------------------------------------------------------------ generators
# Documents are decoded from a byte string (a data-provider layer): Hypothesis draws the bytes (st.binary), atheris
# mutates them; every structural and textual choice is a function of those bytes only, an exhausted source yields the
# simplest choice (0), so shorter / smaller byte strings decode to simpler documents and shrinking works.
class Src:
    def __init__(self, data: bytes):
        self.data = data
        self.pos = 0

    def byte(self):
        if self.pos < len(self.data):
            b = self.data[self.pos]
            self.pos += 1
            return b
        return 0

    def int(self, n):
        """0 .. n-1"""
        if n <= 1:
            return 0
        if n <= 256:
            return self.byte() % n
        return ((self.byte() << 16) | (self.byte() << 8) | self.byte()) % n

    def rng(self, lo, hi):
        return lo + self.int(hi - lo + 1)

    def choice(self, seq):
        return seq[self.int(len(seq))]

    def prob(self, p):
        return self.byte() < p * 256

    def exhausted(self):
        return self.pos >= len(self.data)


BLANKS = [" ", " ", " ", "\t", "\xa0", "　", "\x0b", "\x0c", " "]
ADVERSARIAL = ["```ls -la```", "say \"\"\"hi\"\"\"", "x ``` y", "{items}", "{text}", "{keyword}", "{location}", "%(text)s", "{0}", "{}", "$HOME", "${PATH}", "$USER and $_", "~/notes", "~root", "%HOME%", "\ufdd0\ufdd0", "\ufdd0\ufdd1", "\x00\x00", "\ue000\ue001", "\u202bRTL\u202c", "\uff20tag", "\uff03 c", "\uff5c a \uff5c", "Feature\uff1a f", "\uff02\uff02\uff02", "\u201c\u201c\u201c", "caf\u00e9", "cafe\u0301", "\u212a", "\u0130", "\u00df", "\u0660\u0661", '\\"\\"\\"', "\\`\\`\\`", "#12", "{", "}", "{int}", "{0}", "{}", "%s", "%(x)s", "%", "${x}", "\\x41", "\\u00e9", "&lt;", "'", "''", "\"", "x", "a", "word", " ", "Examples", "Background", "Rule", "Scenario Outline", "Feature", "Scenario", "Given x", "When ", "* y", "| a | b |", '"""', "```", "Examples:", "Scenario: s", "Feature: f", "Rule: r",
               "Background:", "@tag", "# c", "#language: fr", "<a>", "<b>", "\\", "\\n", "\\|", "a.b", "a(b", "$1", "\\1", "[", "*", "+", "?",
               "\x85", " ", " ", "\x1c", "\x1d", "\x1e", "é", "\U0001F600", "日本", ":", "  ", "\t", "b",
               "\ufeff", "\u200b", "\u2060", "\u180e", "\ufeffx", "long tail of ordinary prose without any special character in it at all"]
INDENTS = ["", "", " ", "  ", "    ", "\t", " \t", "      ", "\xa0", "　 ", "\x0b", "   ", "\x0c", " \x1c", "\u2003"]
TRAILS = ["", "", "", " ", "  ", "\t", " \xa0", "　"]
SEPS = [" ", "", " ", "  ", "\t", " \xa0"]


SPECIAL_CHARS = list(
    "\x1a\x04\x03\u0301\u0308\u200d\u200c\u202e\u202d\u2066\u2069\u0660\u0663\u06f4\u0967\uff11\u00df\u0130\u0131\u01c5\ufb01\u212a\u212b\u1e9e\u03c2\u1680\u2000\u2003\u2009\u200a\u205f\u3000"
    "\u2028\u2029\x1c\x1d\x1e\x1f\x85\xa0\xad\ufeff\ufffd\U000e0001\U0001f1e6\u2764\ufe0f\u066a\uff1a\uff03\uff20\uff5c\u00a6\u2223\u01c0\u201c\u201d\u2018\u2019\u00b4\u3003\uff02\uff40"
    "\u2215\u29f5\uff3c\u02d0\ua789\u2236\ufe55\uff1c\uff1e\u2039\u203a\u27e8\u27e9\x00\x01\x7f\x08\x1b\u00e9\u00c5\u00f1\u4e2d\u0e01\u0e49\u05d0\u0627\u0915\u094d\U00010000\U0010ffff\uffff\ufffe")


def g_char(s):
    k = s.int(3)
    if k == 0:
        return s.choice(SPECIAL_CHARS)
    c = s.int(0x10000 if k == 1 else 0x110000)
    if 0xD800 <= c <= 0xDFFF or c in (10, 13):
        c = 0x41 + c % 26
    return chr(c)


def g_frag(s):
    k = s.int(4)
    if k < 3:
        return s.choice(ADVERSARIAL)
    return "".join(g_char(s) for _ in range(s.rng(1, 4)))


def g_text(s):
    return "".join(g_frag(s) for _ in range(s.int(4)))


def g_indent(s):
    return s.choice(INDENTS)


def g_trail(s):
    return s.choice(TRAILS)


def g_misc(s, allow_text=False):
    k = s.int(7 if allow_text else 4)
    if k < 2:
        return {"k": "blank", "raw": s.choice(["", "", "", " ", "  ", "\t", " \xa0", "      "])}
    if k < 4:
        return {"k": "comment", "raw": g_indent(s) + "#" + g_text(s) + g_trail(s)}
    return {"k": "text", "raw": g_indent(s) + g_text(s) + g_trail(s)}


def g_miscs(s, allow_text=False):
    if s.int(4) != 3:
        return []
    return [g_misc(s, allow_text) for _ in range(s.rng(1, 2))]


TAG_BODIES = ["e\u0301", "\u1100\u1161", "\u0915\u093c", "A\u030a", "", "c++", "a+b", "+", "a", "b", "tag", "x-y", "é", "\U0001F600", "a#b", "1", "a:b", "<a>", "wip"]


def g_tagname(s):
    if s.int(4) < 3:
        return "@" + s.choice(TAG_BODIES)
    out = ""
    for _ in range(s.rng(1, 3)):
        c = g_char(s)
        if c.isspace() or c == "@":
            c = "t"
        out += c
    return "@" + out


def g_taglines(s, p=0.35):
    if not s.prob(p):
        return []
    out = []
    for _ in range(s.rng(1, 2)):
        n = s.rng(1, 3)
        out.append({"pre": g_miscs(s), "indent": g_indent(s), "tags": [g_tagname(s) for _ in range(n)],
                    "seps": [s.choice([" ", " ", "  ", "\t", "", " \xa0"]) for _ in range(n)], "trail": g_trail(s),
                    "comment": s.choice([None, None, None, "#c", "# @not a tag", "#@flaky", "#owner: qa@example.org", "# a @b c", "#", "# see #123 and #124", "# a # b", "#x #y @z"])})
    if s.int(4) == 0:
        # the same tag line once more (same indentation, same tags at the same columns), directly or after blank / comment lines
        again = dict(out[-1])
        again["pre"] = g_miscs(s) if s.int(2) else []
        out.append(again)
    return out


def g_titled(s, kws, ctx, dialect, has_tags=True, p_desc=0.4):
    t = {"kw": s.choice(kws), "indent": g_indent(s), "sep": s.choice(SEPS), "name": g_text(s), "trail": g_trail(s), "pre": g_miscs(s), "desc": []}
    if has_tags:
        t["tags"] = g_taglines(s)
    if s.prob(p_desc):
        t["desc"] = [g_misc(s, allow_text=True) for _ in range(s.rng(1, 4))]
        if s.int(4) == 0:
            # a line that starts like a keyword line of this dialect, in another capitalisation: free text (keywords are case-sensitive)
            from .refs import DIALECTS as _D, TITLE_CATS as _T
            k = s.choice(_D[dialect][s.choice(_T)])
            v = s.choice([k.lower(), k.upper(), k.swapcase(), k.title(), k[:1].lower() + k[1:], k.replace(" ", "  "), k.replace(" ", "\t"), k + " "])
            if v != k:
                t["desc"].insert(s.int(len(t["desc"]) + 1), {"k": "text", "raw": g_indent(s) + v + ":" + s.choice(["", " x", " " + k])})
        if s.int(5) == 0 and dialect != "en":
            # an ENGLISH keyword line in a document of another dialect that does not list that word: free text
            from .refs import DIALECTS as _D2, TITLE_CATS as _T2
            cat_ = s.choice(_T2)
            ek = s.choice(_D2["en"][cat_])
            if not any(ek in _D2[dialect][c_] or (ek + " ") in _D2[dialect][c_] for c_ in _T2):
                t["desc"].insert(s.int(len(t["desc"]) + 1), {"k": "text", "raw": g_indent(s) + ek + ":" + s.choice(["", " x"])})
        if s.int(4) == 0 and ctx in ("scenario", "background"):
            # a line that starts with a step keyword written slightly differently: another blank character behind it, the other apostrophe,
            # only its first word - free text, keywords are matched exactly
            sk = s.choice([k for k, _ in step_keywords(dialect)])
            first = sk.split(" ")[0]
            variants = [v for v in (sk.rstrip(" "), sk.rstrip(" ") + g_trail(s), sk.rstrip(" ") + "\u00a0x", sk.rstrip(" ") + "\u202fx", sk.replace("'", "\u2019") + "x", sk.replace("\u2019", "'") + "x", first + " zzz", sk.rstrip(" ") + "\tx")
                        if not any(v.startswith(k2) for k2, _ in step_keywords(dialect))]
            if variants:
                t["desc"].insert(s.int(len(t["desc"]) + 1), {"k": "text", "raw": g_indent(s) + s.choice(variants)})
        for m in t["desc"]:
            # sound by construction: a description line must not be anything the grammar expects at this point
            if m["k"] == "text" and trim(m["raw"]) and any(k in EXPECTED[ctx] for k in cf_kinds(dialect, m["raw"] + "\n")):
                i = lead_ws(m["raw"])
                m["raw"] = m["raw"][:i] + "~" + m["raw"][i:]
        if s.int(3) == 0:
            # a line of the description occurs again, character for character (a rule above and below a note, a repeated sentence)
            t["desc"].insert(s.int(len(t["desc"]) + 1), dict(t["desc"][s.int(len(t["desc"]))]))
            if s.int(2):
                t["desc"].append(dict(t["desc"][0]))
    if s.int(12) == 0:
        # the name begins with a colon glued to the keyword's own colon
        t["sep"] = ""
        t["name"] = s.choice([":", "::", ":x", ":memory: store", ": :"]) + t["name"]
    if s.int(8) == 0:
        # the name mentions its own keyword (and colon) again
        t["name"] = t["name"] + t["kw"] + ":" + s.choice(["", " "]) + t["kw"] + g_text(s)
    return t


CELL_UNITS = ["<br>", "<br/>", "a<br>0", "&nbsp;", "&lt;", "&#124;", "-", "---", ":-:", "--:", ":--", "- -", "=", "===", "+", "*", "1.", ">", "~~~", "***", "___", "[x]", "\ufdd2", "\uf8ff", "\uf8fe", "\ue000", "\uffff", "\x01", "\x1f", "\x7f", "\U0010ffff", "\U000f0000", "\ufdd0\ufdd0", "\ufdd0\ufdd1", "\ufdd0", "\u202a", "\u202e", "\u202c", "\u200f", "#", "#12", "@t", "x", "a", " ", "<a>", "<b>", "\\|", "\\\\", "\\n", "\\x", "é", "\U0001F600", "\xa0", "\t", "1", "$", ".", "\\ "]


def g_cell(s):
    units = []
    for _ in range(s.int(5)):
        if s.int(5) == 0:
            c = g_char(s)
            units.append("c" if c in "|\\" else c)
        else:
            units.append(s.choice(CELL_UNITS))
    return {"l": s.choice(["", " ", " ", "  ", "\t"]), "src": "".join(units), "r": s.choice(["", " ", " ", "  "])}


def g_rows(s, min_rows=1, max_rows=3, header=None):
    w = (s.rng(1, 3) if s.int(12) else 0) if header is None else len(header)  # w == 0: rows that are a lone '|'
    rows = []
    for i in range(s.rng(min_rows, max_rows)):
        cells = [g_cell(s) for _ in range(w)]
        if header is not None and i == 0:
            for c, h in zip(cells, header):
                c["src"] = h
        trail = g_trail(s)
        if s.int(12) == 0:
            # anything after the last pipe is ignored - also a long unterminated tail
            trail = s.choice([" trailing prose after the last pipe", " x" * s.rng(1, 40), " \\", " # not a comment " + "y" * s.rng(0, 60)])
        rows.append({"pre": g_miscs(s) if i else [], "indent": g_indent(s), "cells": cells, "trail": trail})
    return rows


DOC_LINES = ["OTHERESC", "x OTHERESC y ESC", "\\ESC", "x\\ESC y", "ESCESC", "\\\\ESC", "\ufeffDELIM", "\ufeff text", "\u200bDELIM", "", " ", "text", "  indented", "Given x", "Scenario: s", "@tag b", "# comment", "#language: fr", "| a |", "OTHER", "ESC", "ESC x ESC",
             "\\DELIM", "Examples:", "\t tab", "      deep", "é\U0001F600", "<a>", "trailing  ", "Feature: f", "* star"]


def g_docarg(s):
    delim = s.choice(['"""', "```"])
    other = "```" if delim == '"""' else '"""'
    esc = "".join("\\" + c for c in delim)
    lines = []
    for _ in range(s.int(6)):
        k = s.int(5)
        if k == 0:
            body = g_text(s) + g_trail(s)
        elif k == 1 and s.int(2):
            # overlapping / adjacent escape sequences (an unescaper that re-scans its own output shows here)
            a_, b_ = s.rng(0, 6), s.rng(0, 6)
            body = s.choice(["", "x", "\\"]) + esc[:a_] + esc + esc[b_:] + s.choice(["", esc[:3], delim[:2]])
        else:
            other_esc = "".join("\\" + c for c in other)  # the escaped form of the *other* delimiter stays as written
            body = s.choice(DOC_LINES).replace("OTHERESC", other_esc).replace("OTHER", other).replace("ESC", esc).replace("DELIM", delim)
        if trim(body).startswith(delim):
            body = "~" + body  # sound by construction: a content line never starts with the active delimiter
        lines.append(g_indent(s) + body)
    return {"t": "doc", "pre": g_miscs(s), "indent": g_indent(s), "delim": delim,
            "media": s.choice(["", "", " ", "json", " text/plain ", "a b", '"x', "`y", "<a>", "text/x-" + esc + "-quoted", esc, "x" + "".join("\\" + c for c in other)]),
            "lines": lines, "close_indent": g_indent(s), "close_trail": s.choice(["", "", " ", " trailing text"])}


def g_step(s, dialect, p_arg=0.35):
    kws = [k for k, _ in step_keywords(dialect)]
    st_ = {"pre": g_miscs(s), "indent": g_indent(s), "kw": s.choice(kws), "text": g_text(s), "trail": g_trail(s), "arg": None}
    if s.int(10) == 0:
        # a text made of list / rule markers only (a '* ' step reading '* * *', '- - -')
        st_["text"] = s.choice(["* *", "* * *", "- -", "- - -", "***", "---", "___", "_ _ _", "+ +", "= ="])
    elif s.int(6) == 0:
        # the text mentions the step's own keyword again (once, twice, glued)
        st_["text"] = st_["text"] + st_["kw"] + s.choice(["x ", "", st_["kw"]]) + st_["kw"].strip() + g_text(s)
    if s.prob(p_arg):
        st_["arg"] = {"t": "table", "rows": g_rows(s)} if s.int(2) else g_docarg(s)
    return st_


HEADERS = ["a", "b", "c", "a b", "a.b", "h(", "é"]


def g_examples(s, dialect, D):
    e = g_titled(s, D["examples"], "examples", dialect)
    if s.int(6) == 0:
        e["rows"] = None
    else:
        hdr = [s.choice(HEADERS) for _ in range(s.rng(1, 3) if s.int(12) else 0)]
        e["rows"] = g_rows(s, 1, 3, header=hdr)
    return e


def g_scenario(s, dialect, D):
    outline = s.int(3) == 0
    kws = D["scenarioOutline"] if (outline and s.int(2)) else D["scenario"]
    sc = g_titled(s, kws, "scenario", dialect)
    sc["steps"] = [g_step(s, dialect) for _ in range(s.int(4))]
    sc["examples"] = [g_examples(s, dialect, D) for _ in range(s.rng(1, 2))] if outline else []
    return sc


def g_background(s, dialect, D):
    b = g_titled(s, D["background"], "background", dialect, has_tags=False)
    b["steps"] = [g_step(s, dialect) for _ in range(s.int(3))]
    return b


def g_rule(s, dialect, D):
    r = g_titled(s, D["rule"], "rule", dialect)
    r["background"] = g_background(s, dialect, D) if s.int(3) == 0 else None
    r["scenarios"] = [g_scenario(s, dialect, D) for _ in range(s.int(3))]
    return r


DIALECT_NAMES = sorted(DIALECTS)


def g_doc(s, dialects=None):
    dialect = "en" if s.int(2) == 0 else s.choice(dialects or DIALECT_NAMES)
    D = DIALECTS[dialect]
    doc = {"eol": s.choice(["\n", "\n", "\n", "\r\n"]), "final_eol": s.int(5) != 4, "pre": g_miscs(s), "pre2": [], "post": [], "lang": None, "header": None}
    if s.int(2) == 0:
        doc["default"] = dialect
    else:
        doc["default"] = s.choice(["en", "en", "fr", "no"])
        doc["lang"] = dialect
        doc["header"] = (s.choice(["", " ", "\t"]) + "#" + s.choice(["", " ", "  "]) + "language" + s.choice(["", " "]) + ":" +
                         s.choice(["", " ", "  "]) + dialect + s.choice(["", " ", " \t"]))
        doc["pre2"] = g_miscs(s)
    if doc["header"] is None and s.int(32) == 31:
        doc["feature"] = None
        doc["post"] = g_miscs(s)
        return doc
    f = g_titled(s, D["feature"], "feature", dialect)
    f["background"] = g_background(s, dialect, D) if s.int(3) == 0 else None
    f["scenarios"] = [g_scenario(s, dialect, D) for _ in range(s.int(4))]
    f["rules"] = [g_rule(s, dialect, D) for _ in range(s.rng(1, 2))] if s.int(3) == 0 else []
    doc["feature"] = f
    doc["post"] = g_miscs(s)
    return doc


DOC_BYTES = 1500
COUNTS = {"rendered": 0, "unsound_discarded": 0}


def doc_from_bytes(data: bytes, dialects=None):
    return g_doc(Src(data), dialects)


def st_doc(dialects=None, size=DOC_BYTES):
    return st.binary(min_size=size, max_size=size).map(lambda b: doc_from_bytes(b, dialects))


def try_render(doc):
    try:
        r = render(doc)
        COUNTS["rendered"] += 1
        return r
    except Unsound:
        COUNTS["unsound_discarded"] += 1
        return None


def rendered(dialects=None, size=DOC_BYTES):
    """strategy of (doc, Render) pairs; unsound draws are filtered (and counted in COUNTS)"""
    return st_doc(dialects, size).map(lambda d: (d, try_render(d))).filter(lambda x: x[1] is not None)


# ------------------------------------------------------------------------------------------------ features of a document
def doc_features(doc):
    f = doc.get("feature")
    lab = {"feature": bool(f), "rules": 0, "scenarios": 0, "outlines": 0, "examples": 0, "second_examples": 0, "steps": 0, "tables": 0, "docstrings": 0,
           "descriptions": 0, "tags": 0, "backgrounds": 0, "crlf": doc.get("eol") == "\r\n", "header": doc.get("header") is not None,
           "dialect": doc.get("lang") or doc.get("default", "en"), "desc_kwlike": 0, "desc_trailing_ws": 0, "desc_comment_only": 0}
    if not f:
        return lab

    def titled(t):
        if t.get("tags"):
            lab["tags"] += 1
        if t.get("desc"):
            lab["descriptions"] += 1
            ks = [m["k"] for m in t["desc"]]
            if all(k != "text" for k in ks) and "comment" in ks:
                lab["desc_comment_only"] += 1
            if "text" in ks and t["desc"][-1]["k"] == "blank" and t["desc"][-1]["raw"] != "":
                lab["desc_trailing_ws"] += 1
            if any(m["k"] == "text" and any(a in m["raw"] for a in ("Given", "Examples:", "|", '"""', "Scenario:")) for m in t["desc"]):
                lab["desc_kwlike"] += 1

    def steps(ss):
        for s in ss:
            lab["steps"] += 1
            if s.get("arg"):
                lab["tables" if s["arg"]["t"] == "table" else "docstrings"] += 1

    def scen(s):
        titled(s)
        lab["scenarios"] += 1
        steps(s["steps"])
        if s["examples"]:
            lab["outlines"] += 1
            lab["examples"] += len(s["examples"])
            if len(s["examples"]) > 1:
                lab["second_examples"] += 1
            for e in s["examples"]:
                titled(e)

    def bg(b):
        if b:
            titled(b)
            lab["backgrounds"] += 1
            steps(b["steps"])
    titled(f)
    bg(f.get("background"))
    for s in f.get("scenarios", []):
        scen(s)
    for r in f.get("rules", []):
        lab["rules"] += 1
        titled(r)
        bg(r.get("background"))
        for s in r.get("scenarios", []):
            scen(s)
    return lab
