"""Thin access layer to the code under test (imported fresh from /repo/python in every process)."""
from __future__ import annotations

import os

from . import common  # noqa: F401  (puts /repo/python on sys.path)

from gherkin.ast_builder import AstBuilder
from gherkin.errors import (AstBuilderException, CompositeParserException, NoSuchLanguageException, ParserError,
                            ParserException, UnexpectedEOFException, UnexpectedTokenException)
from gherkin.gherkin_line import GherkinLine
from gherkin.parser import Parser, ParserContext
from gherkin.pickles.compiler import Compiler
from gherkin.stream.gherkin_events import GherkinEvents
from gherkin.stream.id_generator import IdGenerator
from gherkin.stream.source_events import SourceEvents, source_event
from gherkin.token import Token
from gherkin.token_formatter_builder import TokenFormatterBuilder
from gherkin.token_matcher import TokenMatcher
from gherkin.token_scanner import TokenScanner

__all__ = [n for n in dir() if not n.startswith("_")] + ["pickle_clone"]


def names_existing_path(text: str) -> bool:
    """finding F1: TokenScanner(str) opens the text as a path when it names one"""
    try:
        return os.path.exists(text)
    except Exception:
        return True


def err_tuple(e):
    loc = getattr(e, "location", None)
    line = loc.get("line") if isinstance(loc, dict) else None
    col = loc.get("column") if isinstance(loc, dict) else None
    return (line, col, str(e))


def parse(text, dialect="en", stop=False, builder=None, matcher=None, parser=None):
    """-> ('ok', document) | ('err', [(line, column, message)]).  Anything else propagates."""
    p = parser or Parser(builder if builder is not None else AstBuilder(IdGenerator()))
    p.stop_at_first_error = stop
    m = matcher if matcher is not None else TokenMatcher(dialect)
    try:
        return ("ok", p.parse(text, m))
    except CompositeParserException as e:
        return ("err", [err_tuple(x) for x in e.errors])
    except ParserException as e:
        return ("err", [err_tuple(e)])


def parse_and_compile(text, dialect="en", uri="u.feature"):
    """fresh id generator shared by builder and compiler -> ('ok', doc, pickles) | ('err', errors)"""
    g = IdGenerator()
    r = parse(text, dialect, builder=AstBuilder(g))
    if r[0] != "ok":
        return r
    doc = dict(r[1])
    doc["uri"] = uri
    return ("ok", doc, Compiler(g).compile(doc))


def language_table_problem():
    """None, or a description of how the language table the package works with differs from the repository's master table"""
    import json
    from gherkin.dialect import DIALECTS as live
    from .refs import MASTER_LANGUAGES
    with open(MASTER_LANGUAGES, encoding="utf8") as f:
        master = json.load(f)
    if live == master:
        return None
    for d in master:
        if live.get(d) != master[d]:
            for c in master[d]:
                if live.get(d, {}).get(c) != master[d][c]:
                    return "dialect %s, %s keywords are now %r (table says %r)" % (d, c, live.get(d, {}).get(c), master[d][c])
    return "language table changed"


def pickle_clone(obj):
    """pickle round trip; an object that cannot be pickled at all (it holds a lock, a file, a local function) is returned as it is - being
    picklable is promised nowhere; a copy that CAN be made must behave like the original"""
    import pickle
    try:
        data = pickle.dumps(obj)
    except (pickle.PicklingError, TypeError, AttributeError):
        return obj
    return pickle.loads(data)
