"""R11 - instrumentation without source changes: recording / counting wrappers around the real builder and matcher."""
from __future__ import annotations

from . import gh


class RecordingAstBuilder(gh.AstBuilder):
    """logs every start_rule / end_rule / build (kind, line) and then delegates to the real AST builder"""

    def __init__(self, id_generator=None):
        self.ev = []
        self.delivered = []
        super().__init__(id_generator if id_generator is not None else gh.IdGenerator())

    def reset(self):
        super().reset()
        self.ev = []
        self.delivered = []

    def start_rule(self, rule_type):
        self.ev.append(("start", rule_type))
        super().start_rule(rule_type)

    def end_rule(self, rule_type):
        self.ev.append(("end", rule_type))
        super().end_rule(rule_type)

    def build(self, token):
        self.ev.append(("build", token.location["line"]))
        self.delivered.append(("EOF" if token.eof() else token.matched_type, token.location["line"]))
        super().build(token)


class BudgetExceeded(Exception):
    pass


class CountingMatcher(gh.TokenMatcher):
    """counts match_* calls; raises BudgetExceeded beyond `budget` (turns a hang into a deterministic failure)"""

    def __init__(self, dialect_name="en", budget=None):
        self.calls = 0
        self.budget = budget
        super().__init__(dialect_name)

    def _tick(self):
        self.calls += 1
        if self.budget is not None and self.calls > self.budget:
            raise BudgetExceeded(self.calls)


def _wrap(name):
    base = getattr(gh.TokenMatcher, name)

    def f(self, token):
        self._tick()
        return base(self, token)
    f.__name__ = name
    return f


for _n in [n for n in dir(gh.TokenMatcher) if n.startswith("match_")]:
    setattr(CountingMatcher, _n, _wrap(_n))
