"""R6 - reference parser: a table-driven interpreter over the *sibling* transition tables with the reference lexer,
a forward-scanning look-ahead, and an AST assembler written from the property statements.

ref_parse(text, default, stop=False) -> RefResult with .accepted, .ast, .errors [(line, column|None, message)],
.delivered [(kind, line)], .events, .states (visited)"""
from __future__ import annotations

import collections

from . import tables
from .common import HarnessError
from .refs import RefLexer, lead_ws, split_lines, trim

_TABLE = None


def sibling_table():
    """majority table of the five sibling generated parsers (they are required to be unanimous on structure)"""
    global _TABLE
    if _TABLE is not None:
        return _TABLE
    votes = collections.Counter()
    extracted = {}
    for name in ("ruby", "go", "java", "c"):
        t, la = tables.normalise(tables.extract(name))
        if len(t) != 42:
            continue
        key = repr(sorted(t.items()))
        votes[key] += 1
        extracted[key] = (t, la)
    if not votes:
        raise HarnessError("no sibling parser table could be read")
    key, n = votes.most_common(1)[0]
    if n < 3:
        raise HarnessError("sibling parser tables disagree with each other")
    _TABLE = extracted[key]
    return _TABLE


class Stop(Exception):
    pass


class RefResult:
    pass


class _Node:
    def __init__(self, rule):
        self.rule = rule
        self.items = []

    def add(self, k, v):
        self.items.append((k, v))

    def all(self, k):
        return [v for kk, v in self.items if kk == k]

    def one(self, k, default=None):
        for kk, v in self.items:
            if kk == k:
                return v
        return default


RAGGED = "inconsistent cell count within the table"


class RefParser:
    def __init__(self, text, default="en", stop=False):
        self.table, self.lookaheads = sibling_table()
        self.lex = RefLexer(default)
        self.lines = split_lines(text)
        self.pos = 0
        self.queue = collections.deque()
        self.errors = []
        self.stop = stop
        self.events = []
        self.delivered = []
        self.unexpected_lines = []
        self.states = []
        self.nid = 0
        self.comments = []
        self.stack = [_Node("None")]
        self.match_calls = 0

    # ---- tokens
    def read(self):
        if self.queue:
            return self.queue.popleft()
        self.pos += 1
        if self.pos <= len(self.lines):
            return (self.lines[self.pos - 1], self.pos)
        return (None, len(self.lines) + 1)

    def add_error(self, line, col, msg):
        full = "(%d:%d): %s" % (line, col if col else 0, msg)
        e = (line, col, full)
        if self.stop:
            self.errors = [e]
            raise Stop()
        if full not in [x[2] for x in self.errors]:
            self.errors.append(e)
            if len(self.errors) > 10:
                raise Stop()

    def test(self, kind, tok):
        raw, lineno = tok
        self.match_calls += 1
        t = self.lex.test(kind, raw, lineno)
        if t is not None and t.error:
            if t.error[0] == "tag":
                self.add_error(lineno, t.error[1], "A tag may not contain whitespace")
            else:
                self.add_error(lineno, t.error[1], "Language not supported: " + t.error[2])
            return None
        return t

    def lookahead(self, i):
        expected, skip = self.lookaheads[i]
        got = []
        match = False
        while True:
            tok = self.read()
            got.append(tok)
            if any(self.test(k, tok) for k in expected):
                match = True
                break
            # same order as every generated parser: Empty, Comment, TagLine
            if not any(self.test(k, tok) for k in ("Empty", "Comment", "TagLine") if k in skip):
                break
        self.queue.extend(got)
        return match

    # ---- AST assembly
    def gid(self):
        self.nid += 1
        return str(self.nid - 1)

    def start_rule(self, r):
        self.events.append(("start", r))
        self.stack.append(_Node(r))

    def end_rule(self, r):
        self.events.append(("end", r))
        node = self.stack.pop()
        try:
            val = self.transform(node)
        except _Ragged as e:
            self.add_error(e.line, e.col, RAGGED)
            return
        self.stack[-1].add(node.rule, val)

    def build(self, t):
        self.events.append(("build", t.line))
        self.delivered.append((t.kind, t.line))
        if t.kind == "Comment":
            self.comments.append({"location": {"line": t.line, "column": 1}, "text": t.text})
        else:
            self.stack[-1].add(t.kind, t)

    def loc(self, t, col=None):
        return {"line": t.line, "column": col if col is not None else t.column}

    def tags_of(self, node):
        tn = node.one("Tags")
        out = []
        if tn is None:
            return out
        for t in tn.all("TagLine"):
            for name, col in t.items:
                out.append({"id": self.gid(), "location": self.loc(t, col), "name": name})
        return out

    def rows_of(self, node):
        rows = [{"id": self.gid(), "location": self.loc(t), "cells": [{"location": self.loc(t, c), "value": v} for v, c in t.items]}
                for t in node.all("TableRow")]
        if rows:
            n = len(rows[0]["cells"])
            for r in rows:
                if len(r["cells"]) != n:
                    raise _Ragged(r["location"]["line"], r["location"]["column"])
        return rows

    def transform(self, node):
        r = node.rule
        if r == "Step":
            t = node.one("StepLine")
            d = {"location": self.loc(t), "keyword": t.keyword, "keywordType": t.keyword_type, "text": t.text}
            if node.one("DataTable"):
                d["dataTable"] = node.one("DataTable")
            elif node.one("DocString"):
                d["docString"] = node.one("DocString")
            d["id"] = self.gid()
            return d
        if r == "DocString":
            seps = node.all("DocStringSeparator")
            d = {"location": self.loc(seps[0]), "content": "\n".join(t.text for t in node.all("Other")), "delimiter": seps[0].keyword}
            if seps[0].text:
                d["mediaType"] = seps[0].text
            return d
        if r == "DataTable":
            rows = self.rows_of(node)
            return {"location": rows[0]["location"], "rows": rows}
        if r == "ExamplesTable":
            return self.rows_of(node)
        if r == "Description":
            oth = [t.text for t in node.all("Other")]
            while oth and trim(oth[-1]) == "":
                oth.pop()
            return "\n".join(oth)
        if r == "Background":
            t = node.one("BackgroundLine")
            return {"location": self.loc(t), "keyword": t.keyword, "name": t.text, "description": node.one("Description", ""),
                    "steps": node.all("Step"), "id": self.gid()}
        if r == "ScenarioDefinition":
            tags = self.tags_of(node)
            sc = node.one("Scenario")
            t = sc.one("ScenarioLine")
            return {"tags": tags, "location": self.loc(t), "keyword": t.keyword, "name": t.text, "description": sc.one("Description", ""),
                    "steps": sc.all("Step"), "examples": sc.all("ExamplesDefinition"), "id": self.gid()}
        if r == "ExamplesDefinition":
            tags = self.tags_of(node)
            ex = node.one("Examples")
            t = ex.one("ExamplesLine")
            d = {"tags": tags, "location": self.loc(t), "keyword": t.keyword, "name": t.text, "description": ex.one("Description", ""), "tableBody": []}
            rows = ex.one("ExamplesTable")
            if rows:
                d["tableHeader"] = rows[0]
                d["tableBody"] = rows[1:]
            d["id"] = self.gid()
            return d
        if r == "Rule":
            h = node.one("RuleHeader")
            if h is None or h.one("RuleLine") is None:
                return None
            children = [{"background": b} for b in node.all("Background")[:1]] + [{"scenario": s} for s in node.all("ScenarioDefinition")]
            tags = self.tags_of(h)
            t = h.one("RuleLine")
            return {"tags": tags, "location": self.loc(t), "keyword": t.keyword, "name": t.text, "description": h.one("Description", ""),
                    "children": children, "id": self.gid()}
        if r == "Feature":
            h = node.one("FeatureHeader")
            if h is None or h.one("FeatureLine") is None:
                return None
            children = ([{"background": b} for b in node.all("Background")[:1]] + [{"scenario": s} for s in node.all("ScenarioDefinition")] +
                        [{"rule": x} for x in node.all("Rule")])
            tags = self.tags_of(h)
            t = h.one("FeatureLine")
            return {"tags": tags, "location": self.loc(t), "language": t.dialect, "keyword": t.keyword, "name": t.text,
                    "description": h.one("Description", ""), "children": children}
        if r == "GherkinDocument":
            d = {"comments": self.comments}
            if node.one("Feature") is not None:
                d["feature"] = node.one("Feature")
            return d
        return node

    # ---- driver
    def match_token(self, state, tok):
        raw, lineno = tok
        trans, expected = self.table[state]
        for kind, la, prods, target in trans:
            if raw is None and kind != "EOF":
                continue
            t = self.test(kind, tok)
            if t is None:
                continue
            if la is not None and not self.lookahead(la):
                continue
            for p in prods:
                if p[0] == "start":
                    self.start_rule(p[1])
                elif p[0] == "end":
                    self.end_rule(p[1])
                else:
                    self.build(t)
            return target
        if raw is None:
            self.add_error(lineno, None, "unexpected end of file, expected: " + ", ".join(expected))
        else:
            self.unexpected_lines.append(lineno)
            self.add_error(lineno, lead_ws(raw) + 1, "expected: " + ", ".join(expected) + ", got '" + trim(raw) + "'")
        return state

    def run(self):
        res = RefResult()
        try:
            self.start_rule("GherkinDocument")
            state = 0
            while True:
                tok = self.read()
                self.states.append(state)
                state = self.match_token(state, tok)
                if tok[0] is None:
                    break
            self.end_rule("GherkinDocument")
        except Stop:
            pass
        res.errors = list(self.errors)
        res.accepted = not self.errors
        res.ast = self.stack[0].one("GherkinDocument") if res.accepted else None
        res.delivered = self.delivered
        res.unexpected_lines = self.unexpected_lines
        res.events = self.events
        res.states = self.states
        res.nlines = len(self.lines)
        res.match_calls = self.match_calls
        res.dialect = self.lex.dialect
        return res


class _Ragged(Exception):
    def __init__(self, line, col):
        self.line = line
        self.col = col


def ref_parse(text, default="en", stop=False):
    return RefParser(text, default, stop).run()
