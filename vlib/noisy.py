"""R10 - noisy documents: line-level mutations of rendered model documents, line soup from a per-dialect lexicon,
character soup over an adversarial alphabet, raw Unicode.  All decoded from bytes (see model.Src)."""
from __future__ import annotations

import glob
import os

from hypothesis import strategies as st

from . import model
from .common import REPO
from .model import Src, g_char, g_text
from .refs import DIALECTS

SOUP_ALPHABET = ["|", "\\", "n", "@", "#", ":", '"', "`", "<", ">", " ", "\t", "\r", "\n", "\n", "a", "*", "-", "{", "}", "%", "'", "$", "(", ")", "[", "]"]
DECOYS = ["#language: mk", "# language: zh", "#language: nb", "#language: iw", "# language: sr", "@smoke @wip   # see #123 and #124", "@a # b # c", "@a #b #c @d", "@wip\u3000# memo", "@a\xa0#c", "@a\t# c", " @a\u2003#x @b", "@a\x0b#c", "@a #", "@a\t#", "* * *", "* *", "- - -", "#language: en-", "# language: _fr", "#language: pt--BR", "@ smoke", "@a @\tb", "@ a b", "@a@ b", "# language: es-419", "#language: fr2", "# language: [fr]", "#language:en^", "# language: `en`", "# language: français", "#language: en_au", "#language: en-au",
          "{\"json\": {\"a\": 1}}", "Given {int} cukes", "{0} {name} {", "} %s %d %(k)s", "100% done", "it's", "@a b", "@", "@t #c", "#language: xx", "# language: fr", "#language:en", "| a |", "| a | b |", "|", "| \\", "| \\| | \\n |", '"""', "```",
          '"""json', "``` x", "Examples:", "Scenario: s", "Scenario Outline: <a>", "Feature: f", "Rule: r", "Background:", "Given x", "And <a>", "* y",
          "When ", "Then <b> z", "", "  ", "text", "\t", "\r", "<a>", "|(|", "| a(b | $1 |", "Given <a(b> <$1> <[>", "@x #c", " ", "\x0b", "\x1c", "\x85",
          "Fonctionnalité: z", "Scénario: q", "Soit x", "Egenskap: e", "Examples: e", "@a @b", "# c"]


def lexicon(dialect):
    D = DIALECTS[dialect]
    out = list(DECOYS)
    for c in ("feature", "rule", "background", "scenario", "scenarioOutline", "examples"):
        out += [k + ":" for k in D[c][:2]] + [D[c][0] + ": n", D[c][0], D[c][-1] + "x", D[c][0] + " :"]  # and near misses: bare keyword, keyword+char
    for c in ("given", "when", "then", "and", "but"):
        out += [k + "x" for k in D[c][:2]]
    return out


_LEX = {}


def g_soup_lines(s):
    d = "en" if s.int(3) else s.choice(model.DIALECT_NAMES)
    if d not in _LEX:
        _LEX[d] = lexicon(d)
    lex = _LEX[d]
    lines = []
    if s.int(3) == 0 and d != "en":
        lines.append("# language: " + d)
    # grammar-ish backbone so that most of the text is reached (plain soup dies in the first lines)
    D = DIALECTS[d]
    if s.int(4):
        lines.append(D["feature"][0] + ": f")
    for _ in range(s.int(14)):
        k = s.int(10)
        if k < 6:
            lines.append(s.choice(model.INDENTS) + s.choice(lex) + s.choice(["", "", " ", "\r"]))
        elif k < 8:
            lines.append(s.choice(model.INDENTS) + s.choice([D["scenario"][0] + ": s", D["scenarioOutline"][0] + ": o", D["background"][0] + ":",
                                                             D["rule"][0] + ": r", D["examples"][0] + ":", D["given"][-1] + "x", D["and"][-1] + "<a>"]))
        elif k == 8:
            lines.append(g_text(s))
        else:
            lines += ["| a | b |", s.choice(["| c | d |", "| c |", "| c | d | e |"])]
    return ("\n".join(lines) + s.choice(["", "\n", "\n"])), d


def mutate_lines(s, lines, other_lines):
    n = s.rng(1, 3)
    for _ in range(n):
        if not lines:
            lines.append(s.choice(DECOYS))
            continue
        k = s.int(12)
        i = s.int(len(lines))
        if k == 0:
            del lines[i]
        elif k == 1:
            lines.insert(i, lines[i])
        elif k == 2:
            j = s.int(len(lines))
            lines[i], lines[j] = lines[j], lines[i]
        elif k in (3, 4):
            lines.insert(i, s.choice(model.INDENTS) + s.choice(DECOYS))
        elif k == 5:
            lines[i] = lines[i][: s.int(len(lines[i]) + 1)]
        elif k == 6 and other_lines:
            j = s.int(len(other_lines))
            lines[i:i] = other_lines[j: j + s.rng(1, 4)]
        elif k == 7:
            lines.insert(i, s.choice(['"""', "```", '  """x', "   ```"]))
        elif k == 8:
            # make a table ragged: add or drop a cell on some row
            rows = [x for x, l in enumerate(lines) if l.lstrip().startswith("|")]
            if rows:
                r = rows[s.int(len(rows))]
                lines[r] = lines[r] + " z |" if s.int(2) else lines[r].rstrip().rsplit("|", 2)[0] + "|"
        elif k == 9:
            tags = [x for x, l in enumerate(lines) if l.lstrip().startswith("@")]
            if tags:
                r = tags[s.int(len(tags))]
                lines[r] = lines[r] + s.choice([" x", " @a b", "@ c d"])
            else:
                lines.insert(i, "@a b")
        elif k == 10:
            lines.insert(0, s.choice(["#language: xx", "# language: zz-top", "#language: fr", "#language:no", "# language: es-419", "#language: fr2", "# language: [fr]", "#language:en^",
                                      "# language: `en`", "# language: français", "#language: en_au", "#language: en-au", "#language: EN", "# language: en.us"]))
        else:
            lines[i] = s.choice(DECOYS)
    return lines


def g_noisy(s):
    """-> (text, default dialect, label)"""
    text, d, label = _g_noisy(s)
    if s.int(6) == 0:
        text += s.choice(["\n", "\n\n", "\n\n\n", "\n \n", "\r\n\r\n"])  # documents ending in blank lines
    return (text, d, label)


def _g_noisy(s):
    k = s.int(8)
    if k < 4:
        doc = model.g_doc(s)
        r = model.try_render(doc)
        if r is None:
            return ("Feature: f\n", "en", "fallback")
        lines = list(r.raw_lines)
        other = []
        if s.int(3) == 0:
            r2 = model.try_render(model.g_doc(s))
            other = list(r2.raw_lines) if r2 else []
        if k != 0:
            lines = mutate_lines(s, lines, other)
            label = "mutated-model"
        else:
            label = "valid-model"
        text = r.eol.join(lines) + (r.eol if doc.get("final_eol", True) else "")
        return (text, doc["default"], label)
    if k < 6:
        text, d = g_soup_lines(s)
        return (text, d if s.int(2) else "en", "line-soup")
    if k == 6:
        return ("".join(s.choice(SOUP_ALPHABET) for _ in range(s.int(40))), "en", "char-soup")
    return ("".join(g_char(s) if s.int(6) else "\n" for _ in range(s.int(40))), "en", "unicode")


NOISY_BYTES = 1600


def st_noisy(size=NOISY_BYTES):
    return st.binary(min_size=size, max_size=size).map(lambda b: g_noisy(Src(b)))


def corpus_texts():
    out = []
    for f in sorted(glob.glob(os.path.join(REPO, "testdata", "good", "*.feature")) + glob.glob(os.path.join(REPO, "testdata", "bad", "*.feature"))):
        out.append((os.path.basename(f), open(f, encoding="utf8", newline="").read()))
    return out


# ------------------------------------------------------------------ deterministic "magnitude" families
def big_documents(thorough=False):
    """documents whose counts, line numbers, columns and ids cross digit boundaries (9/10, 99/100, 999/1000) - things a
    random structural generator rarely reaches.  -> [(name, text)] (valid and invalid ones)"""
    out = []
    N = [9, 10, 11, 12, 32, 33, 99, 100, 101, 255, 256, 257, 258] + ([999, 1000, 1001] if thorough else [])

    def scen(i, steps=1, ind="  "):
        return ind + "Scenario: s%d\n" % i + "".join(ind + "  Given step %d of %d\n" % (j, i) for j in range(steps))
    for n in [7, 8, 9, 10, 11, 97, 98, 99, 100, 101] + ([997, 998, 999, 1000] if thorough else []):
        # a ragged table whose deviating rows (two different wrong widths, in both orders) sit where row ids / line numbers gain a digit
        for w1, w2 in (("| a |", "| a | b | c |"), ("| a | b | c |", "| a |"), ("|", "| a | b | c | d |")):
            good = "".join("   | r%d | x |\n" % i for i in range(n))
            out.append(("ragged-two-widths-%d-%d-%d" % (n, len(w1), len(w2)), "Feature: f\n Scenario: s\n  Given t\n" + good + "   " + w1 + "\n" + "   " + w2 + "\n" + "   | ok | ok |\n   " + w2 + "\n"))
            out.append(("ragged-examples-two-widths-%d-%d-%d" % (n, len(w1), len(w2)), "Feature: f\n Scenario Outline: s\n  Given <r0>\n  Examples:\n" + good + "   " + w1 + "\n   | ok | ok |\n" + "   " + w2 + "\n"))
    for n in N:
        out.append(("scenarios-%d" % n, "Feature: f\n" + "".join(scen(i) for i in range(n))))
        out.append(("steps-%d" % n, "Feature: f\n" + scen(0, n)))
        out.append(("table-rows-%d" % n, "Feature: f\n Scenario: s\n  Given t\n" + "".join("   | r%d | x |\n" % i for i in range(n))))
        out.append(("table-cells-%d" % n, "Feature: f\n Scenario: s\n  Given t\n   |" + "".join(" c%d |" % i for i in range(n)) + "\n   |" + " v |" * n + "\n"))
        out.append(("example-rows-%d" % n, "Feature: f\n Background:\n  Given b\n Scenario Outline: o <a>\n  Given <a>\n  Examples:\n   | a |\n" + "".join("   | %d |\n" % i for i in range(n))))
        out.append(("examples-blocks-%d" % n, "Feature: f\n Scenario Outline: o\n  Given <a>\n" + "".join(" @e%d\n Examples: e%d\n   | a |\n   | %d |\n" % (i, i, i) for i in range(n))))
        out.append(("tags-on-a-line-%d" % n, " ".join("@t%d" % i for i in range(n)) + "\nFeature: f\n " + " ".join("@u%d" % i for i in range(n)) + "\n Scenario: s\n"))
        out.append(("tag-lines-%d" % n, "".join("@t%d\n" % i for i in range(n)) + "Feature: f\n" + "".join(" @u%d\n # c\n" % i for i in range(n)) + " Scenario: s\n"))
        out.append(("rules-%d" % n, "Feature: f\n" + "".join(" @r%d\n Rule: r%d\n  Background:\n   Given b%d\n" % (i, i, i) + scen(i, 1, "  ") for i in range(n))))
        out.append(("prelude-lines-%d" % n, "\n" * (n // 2) + "# c\n" * (n - n // 2) + "Feature: f\n Scenario: s\n  Given x\n   | a |\n  And y\n   \"\"\"\n   d\n   \"\"\"\n @t\n Scenario: u\n"))
        out.append(("indent-%d" % n, "".join(" " * n + l + "\n" for l in ["@t @u", "Feature: f", "desc", "Scenario Outline: s", "Given <a> x", "| a | b |", "\"\"\"m", "c", "\"\"\"", "@e   @f", "Examples:", "| a |", "| 1 |"])))
        out.append(("comments-%d" % n, "Feature: f\n" + "".join(" # comment %d\n Scenario: s%d\n" % (i, i) for i in range(n))))
        out.append(("docstring-lines-%d" % n, "Feature: f\n Scenario: s\n  Given d\n   ```\n" + "".join("   line %d\n" % i for i in range(n)) + "   ```\n"))
        out.append(("description-lines-%d" % n, "Feature: f\n" + "".join("  description %d\n\n" % i for i in range(n)) + " Scenario: s\n"))
        # invalid ones: the fault sits behind the magnitude
        out.append(("bad-after-prelude-%d" % n, "\n" * n + "Feature: f\n garbage %d\n Scenario: s\n  Given x\n   | a | b |\n   | c |\n" % n))
        out.append(("bad-ragged-row-%d" % n, "Feature: f\n Scenario: s\n  Given t\n" + "".join("   | r%d | x |\n" % i for i in range(n)) + "   | short |\n   | r | x |\n"))
        out.append(("bad-tag-blank-col-%d" % n, "Feature: f\n" + " " * n + "@ok @bad tag\n Scenario: s\n"))
        out.append(("bad-unexpected-indent-%d" % n, "Feature: f\n Scenario: s\n  Given x\n" + " " * n + "Examples:\n" + " " * n + "| a |\n" + "\t" * n + "nonsense\n"))
        out.append(("bad-many-errors-%d" % n, "Feature: f\n" + "".join(" Scenario: s%d\n  Given x\n  bad line %d\n" % (i, i) for i in range(n))))
        out.append(("bad-eof-in-docstring-%d" % n, "Feature: f\n Scenario: s\n  Given d\n   \"\"\"\n" + "x\n" * n))
    out.append(("source-over-4MiB", "Feature: f\n Scenario: s\n  description with \x0c form feed, \x1e record separator, \x85 and \u2028 inside\n  # " + "x" * (4 * 1024 * 1024 + 4096) +
                "\n  Given a\n   | c\x0cd | e\u2029f |\n  When b\n"))
    out.append(("same-length-rows-different-cells", "Feature: f\n Scenario: s\n  Given t\n   | name  | value |\n   | a | b | c     |\n"))
    out.append(("same-length-rows-same-cells", "Feature: f\n Scenario: s\n  Given t\n   | name  | value |\n   | a|b   | c|d|e |\n   | a\\|b  | c     |\n  And u\n   | 1 | 2 |\n   | 3 | 4 |\n   |11|22 |\n"))
    for n in (4095, 4096, 4097, 4200):
        out.append(("examples-%d-columns" % n, "Feature: f\n Scenario Outline: o <c0> <c%d>\n  Given <c1> and <c%d> and <c%d>\n  Examples:\n   |" % (n - 1, n - 1, n // 2) +
                    "".join(" c%d |" % i for i in range(n)) + "\n   |" + "".join(" v%d |" % i for i in range(n)) + "\n Scenario Outline: p\n  Given <x> <y>\n  Examples:\n   | x | y |\n   | 1 | 2 |\n"))
    out.append(("unexpected-line-over-2MiB", "Feature: f\n Scenario: s\n  Given x\n   | a |\n" + "y" * (2200 * 1024) + "\n  And more\n also unexpected\n  Then z\n"))
    out.append(("examples-headers-recur", "Feature: f\n Background:\n  Given bg\n Scenario Outline: o <a> <b>\n  Given <a> <b>\n  Examples:\n   | a | b |\n   | 1 | 2 |\n  Examples:\n   | b | a |\n   | 3 | 4 |\n  Examples: header only\n   | a | b |\n  Examples:\n   | a | b |\n   | 5 | 6 |\n  Examples:\n   | b | a |\n   | 7 | 8 |\n"))
    for n in (20, 21, 22, 40):
        out.append(("long-background-%d-several-scenarios" % n, "Feature: f\n Background:\n  Given b0\n" + "".join("  And b%d\n" % i for i in range(1, n)) + " Scenario: one\n  And c\n  When d\n Scenario: two\n  And e\n  But g\n Scenario: three\n  * h\n  And i\n"))
    for n in (32, 33, 34, 70):
        out.append(("and-first-outline-%d-rows" % n, "Feature: f\n Scenario Outline: o\n  And <a>\n  But x\n  Then y\n  Examples:\n   | a |\n" + "".join("   | %d |\n" % i for i in range(n))))
    out.append(("outline-table-numeric-cells-100-rows", "Feature: f\n Scenario Outline: o\n  Given prices <n>\n   | 140 | 40 | 9 | <n> |\n   | 1 | 91 | 914 | 0 |\n  Examples:\n   | n |\n" + "".join("   | %d |\n" % i for i in range(100))))
    out.append(("docstring-line-3000-escapes", "Feature: f\n Scenario: s\n  Given x\n   \"\"\"\n   " + "\\\"\\\"\\\" " * 3000 + "\n   " + "\\`\\`\\`" * 1200 + "\n   \"\"\"\n  And y\n   ```\n   " + "\\`\\`\\`x" * 2500 + "\n   ```\n"))
    for n in (31, 32, 33, 40):
        rows = "".join("   | %d |\n" % i for i in range(n))
        out.append(("two-big-examples-blocks-%d" % n, "@f\nFeature: f\n @o\n Scenario Outline: o <a>\n  Given <a>\n  @first\n  Examples: one\n   | a |\n" + rows +
                    "  @second @extra\n  Examples: two\n   | a |\n" + rows + "  Examples: untagged\n   | a |\n" + rows + "  @third\n  Examples: small\n   | a |\n   | x |\n"))
    tagline = " ".join("@REQ-%04d" % i for i in range(30)) + "@REQ-0030@REQ-0031 " + " ".join("@REQ-%04d" % i for i in range(32, 60))
    out.append(("long-tag-line-with-glued-tags", "Feature: f\n " + tagline + "\n Scenario: s\n  Given x\n " + tagline + "  # c @no\n\n " + tagline[:380] + "\n Scenario Outline: o\n  Given <a>\n  " + tagline + "\n  Examples:\n   | a |\n   | 1 |\n"))
    out.append(("step-at-column-10003", "Feature: f\n Background:\n" + " " * 10002 + "Given far right\n  Given normal\n   | t |\n Scenario: s\n" + " " * 10002 + "When far\n   \"\"\"\n   d\n   \"\"\"\n  Then near\n"))
    out.append(("rows-differing-only-in-the-escaped-pipe", "Feature: f\n Background:\n  Given t\n   | ls\\|wc | sort |\n   | ls | wc\\|sort |\n   | ls\\|wc\\|sort | |\n Scenario: s\n  When u\n   | a\\|b | c |\n   | a | b\\|c |\n"))
    for n in (129, 130, 300):
        out.append(("wide-row-with-escaped-pipes-%d" % n, "Feature: f\n Scenario: s\n  Given t\n   |" + "".join(" c%d\\|x |" % i if i % 7 == 3 else " c%d |" % i for i in range(n)) + "\n"))
    for k in (2, 3, 5):
        out.append(("ragged-first-row-is-the-odd-one-%d" % k, "Feature: f\n Scenario: s\n  Given t\n   | only |\n" + "   | b | c |\n" * k))
        out.append(("ragged-examples-header-is-the-odd-one-%d" % k, "Feature: f\n Scenario Outline: s\n  Given <h>\n  Examples:\n   | h |\n" + "   | b | c |\n" * k))
    for n in (63, 64, 65, 130):
        out.append(("examples-%d-rows-backslash-values" % n, "Feature: f\n Scenario Outline: open <path> then <n>\n  Given <path>\n   | <path> |\n  Examples:\n   | path | n |\n" +
                    "".join("   | C:\\\\temp\\\\new%d\\\\1 | \\\\g<0>%d |\n" % (i, i) for i in range(n))))
    out.append(("ragged-then-other-widths", "Feature: f\n Scenario: s\n  Given x\n   | a | b |\n   | c |\n  And three wide\n   | 1 | 2 | 3 |\n   | 4 | 5 | 6 |\n  And one wide\n   | z |\n Scenario Outline: o\n  Given <h>\n  Examples:\n   | h | i | j | k |\n   | 1 | 2 | 3 | 4 |\n"))
    for n in [3, 8, 15, 16, 17, 31, 32, 33, 64, 100]:
        # wide examples tables whose values spell the placeholder of a later / an earlier column (substitution is column by column, in header order)
        hdr = "".join(" c%02d |" % i for i in range(n))
        fwd = "".join(" <c%02d> |" % (i + 1) if i + 1 < n else " end |" for i in range(n))
        back = "".join(" <c%02d> |" % (i - 1) if i else " start |" for i in range(n))
        plain = "".join(" v%d |" % i for i in range(n))
        out.append(("wide-examples-chain-%d" % n, "Feature: f\n Scenario Outline: o <c00> <c%02d>\n  Given <c00> and <c01> and <c%02d>\n   | <c00> | <c%02d> |\n  Examples:\n   |%s\n   |%s\n   |%s\n   |%s\n" % (
            n - 1, n - 1, n // 2, hdr, fwd, back, plain)))
    for n in [9, 10, 12, 16, 17, 24, 33, 40, 65]:
        for with_rows in ([1, 8], [1, n - 1], [n - 1, 0], [8, 3], [n - 2], list(range(0, n, 7)), [8, 9, 1]):
            blocks = []
            for i in range(n):
                if i in with_rows:
                    blocks.append(" @e%d\n Examples: e%d\n   | a |\n   | %d |\n   | %dx |\n" % (i, i, i, i))
                elif i % 3 == 0:
                    blocks.append(" Examples: header only %d\n   | a |\n" % i)
                else:
                    blocks.append(" @t%d\n Examples: no table %d\n" % (i, i))
            out.append(("sparse-examples-%d-%s" % (n, "-".join(map(str, with_rows))), "Feature: f\n Scenario Outline: o <a>\n  Given <a>\n" + "".join(blocks)))
    for n in [600, 1200] + ([5000] if thorough else []):
        out.append(("tagged-scenarios-%d" % n, "Feature: f\n" + "".join(" @a%d\n # c\n Scenario Outline: s%d\n  Given <x>\n @e\n\n Examples:\n  | x |\n  | 1 |\n" % (i, i) for i in range(n))))
    for n in [1200, 3500] + ([20000] if thorough else []):
        # long unbroken runs (recursion depth / stack use must not depend on the length of a run)
        out.append(("and-run-%d" % n, "Feature: f\n Background:\n  Given b\n" + "  And bb\n" * (n // 2) + " Scenario Outline: s\n  But first\n" + "  And <a>\n" * n + "  Examples:\n   | a |\n   | 1 |\n"))
        out.append(("conjunction-only-%d" % n, "Feature: f\n Scenario: s\n" + "  And y\n" * n))
        out.append(("blank-run-%d" % n, "Feature: f\n" + "\n" * n + " Scenario: s\n" + "# c\n" * n + "  Given x\n"))
    # two dimensions at once: neither count is large, their product (pickle steps / cells / tags) is
    for s, r in [(64, 65), (190, 180)] + ([(130, 127), (257, 256), (40, 1700)] if thorough else []):
        out.append(("outline-%d-steps-x-%d-rows" % (s, r), "Feature: f\n Background:\n  Given b\n Scenario Outline: o <a>\n" + "".join("  %s step %d <a>\n" % (("Given", "And", "When", "Then", "But")[j % 5], j) for j in range(s)) +
                    "  @e\n  Examples:\n   | a |\n" + "".join("   | %d |\n" % i for i in range(r)) + " Scenario: after\n  Given z\n"))
    for r, c in [(66, 63), (260, 260)] + ([(129, 128), (520, 130)] if thorough else []):
        rows = "".join("   |" + "".join(" %d.%d |" % (i, j) for j in range(c)) + "\n" for i in range(r))
        out.append(("table-%d-rows-x-%d-cells" % (r, c), "Feature: f\n Scenario: s\n  Given t\n" + rows + "  And u\n   | x |\n Scenario Outline: o\n  Given <0.0>\n  Examples:\n" + rows))
    for t, r in [(70, 60)] + ([(260, 255)] if thorough else []):
        tags = " ".join("@t%d" % i for i in range(t))
        out.append(("outline-%d-tags-x-%d-rows" % (t, r), tags + "\nFeature: f\n " + tags + "\n Scenario Outline: o\n  Given <a>\n  " + tags + "\n  Examples:\n   | a |\n" + "".join("   | %d |\n" % i for i in range(r))))
    for n in [65535, 65536, 65537, (1 << 20) - 1, 1 << 20, (1 << 20) + 1] + ([(1 << 21) + 3] if thorough else []):
        long = "x" * n
        out.append(("long-line-description-%d" % n, "Feature: f\n " + long + "\n Scenario: s\n  Given y\n"))
        out.append(("long-line-step-%d" % n, "Feature: f\n Scenario: s\n  Given " + long + "\n  Then z\n"))
        out.append(("long-line-comment-cell-%d" % n, "# " + long + "\nFeature: f\n Scenario: s\n  Given t\n   | " + long + " | b |\n"))
        out.append(("bad-long-line-%d" % n, long + "\nFeature: f\n"))
    return out


def length_boundary_documents(thorough=False):
    """lines whose length sits on the boundaries a truncation / buffer / column limit would pick (..63 64 65 .. 159 160 161 ..)"""
    Ls = [15, 16, 17, 31, 32, 33, 63, 64, 65, 79, 80, 81, 99, 100, 101, 119, 120, 121, 127, 128, 129, 158, 159, 160, 161, 199, 200, 201, 255, 256, 257]
    Ls += [511, 512, 513, 1023, 1024, 1025, 4095, 4096, 4097] if thorough else [1023, 1024, 1025]
    out = []
    for L in Ls:
        w = ("word " * (L // 5 + 1))[:L].rstrip() or "w"
        w = w + "x" * (L - len(w))
        out.append(("name-%d" % L, "Feature: %s\n Scenario: %s\n  Given %s\n   | %s | b |\n @%s\n Scenario: t\n" % (w, w, w, w, w.replace(" ", "_"))))
        out.append(("description-%d" % L, "Feature: f\n %s\n # %s\n Scenario: s\n  Given d\n   ```%s\n   %s\n   ```\n" % (w, w, w.replace(" ", "/"), w)))
        out.append(("bad-line-%d" % L, "Feature: f\n Scenario: s\n  Given x\n  Examples:\n%s\n  Then y\n" % w))
        out.append(("bad-line-indented-%d" % L, "%s\nFeature: f\n   \t%s  \n" % (w, w)))
        out.append(("bad-tag-%d" % L, "Feature: f\n @%s x\n Scenario: s\n" % w.replace(" ", "_")))
    if thorough:
        # one physical line beyond every plausible read-buffer bound (8 Mi characters and a bit), with located elements below it
        for n in ((8 << 20) + 10, (16 << 20) + 3):
            out.append(("line-of-%d-characters" % n, "Feature: f\n " + "d" * n + "\n @t\n Scenario: s\n  Given x\n   | a | b |\n garbage below\n"))
    return out
