"""Hypothesis strategies for AST dictionaries of the shape the parser returns (used for the pickle properties)."""
from __future__ import annotations

from hypothesis import strategies as st

KEYWORD_TYPES = ["Context", "Action", "Outcome", "Conjunction", "Unknown"]
KW_FOR_TYPE = {"Context": "Given ", "Action": "When ", "Outcome": "Then ", "Conjunction": "And ", "Unknown": "* "}

DEFAULT = dict(
    name=st.sampled_from(["s", "n <a>", "", "<b> and <a>", "x<c>y", "<A> <a>", "<B>", "menu -> <a> opens", "<a> ", " <b>", "a > b < <a>", "<a>", "<a><b>", "<b>"]),
    step_text=st.sampled_from(["t", "<a> t <b>", "<c>", "", "<a><a>", "no placeholder", "<A> vs <a>", "x -> <b>", "> <a> <"]),
    cell=st.sampled_from(["x", "<a>", "<b> <a>", "a.b", "", "<a><a>", "\\", "$1", "v", "a|b", "a", "b", "b|c", "|", "C:\\temp\\new", "\\g<0>", "\\1", "\\\"\\\"\\\"", "\\`\\`\\`", "\"\"\"", "140", "40", "9"]),
    header=st.sampled_from(["a", "b", "c", "a b", "A", "a"]),
    content=st.sampled_from(["", "<a>\n<b>", "c", "line1\n  line2\n"]),
    media=st.sampled_from(["<a>", "m", "text/<b>"]),
    tag=st.sampled_from(["@a", "@b", "@c", "@a", "@<a>", "@x<b>y", "@"]),
    ktype=st.sampled_from(KEYWORD_TYPES),
    max_scenarios=3, max_rules=3, max_steps=3, max_examples=3, max_rows=3, max_cols=3, max_tags=3,
    p_ragged=0, p_scrambled_locations=0.3, p_shared_tag=0, p_shared_node=0, p_any_order=0.25, p_bg=0.6, p_rule_bg=0.5, p_arg=0.4, p_outline=0.45, p_header=0.8,
    language=st.sampled_from(["en", "fr", "en-pirate"]),
    uri=st.sampled_from(["u.feature", "dir/x y.feature", "", "./features/a.feature", "../up.feature", "/abs/path.feature", "C:\\dir\\w.feature", "file:///x.feature",
                         " spaced .feature ", "ünï/ç.feature", "./", "a/./b/../c.feature"]),
)


class _Ids:
    def __init__(self):
        self.n = 0

    def __call__(self):
        v = str(self.n)
        self.n += 1
        return v


LOC = {"line": 1, "column": 1}


@st.composite
def st_ast(draw, **over):
    cfg = dict(DEFAULT)
    cfg.update(over)
    gid = _Ids()
    scramble = cfg.get("p_scrambled_locations") and draw(st.floats(0, 1, allow_nan=False)) < cfg["p_scrambled_locations"]

    def loc():
        # edited / merged ASTs: locations need not increase in document order (they play no part in compiling)
        return {"line": draw(st.integers(1, 12)), "column": draw(st.integers(1, 12))} if scramble else dict(LOC)
    prob = lambda p: draw(st.floats(0, 1, allow_nan=False)) < p
    count = lambda hi, lo=0: draw(st.integers(lo, hi))

    seen_tags = []

    def tags():
        return [{"id": None, "location": loc(), "name": draw(cfg["tag"])} for _ in range(count(cfg["max_tags"]))]

    def fix_tags(ts):
        for t in ts:
            t["id"] = gid()
        if cfg.get("p_shared_tag") and seen_tags and prob(cfg["p_shared_tag"]):
            # the very tag node of an outer / earlier level listed again (hand-built and templated ASTs do this): an equal element
            ts.insert(count(len(ts)), dict(seen_tags[count(len(seen_tags) - 1)]))
        seen_tags.extend(ts)
        return ts

    def row(width, values=None):
        return {"id": gid(), "location": loc(),
                "cells": [{"location": loc(), "value": (values[i] if values else draw(cfg["cell"]))}
                          for i in range(width)]}

    def step():
        kt = draw(cfg["ktype"])
        s = {"id": None, "location": loc(), "keyword": KW_FOR_TYPE[kt], "keywordType": kt,
             "text": draw(cfg["step_text"])}
        if prob(cfg["p_arg"]):
            if draw(st.booleans()):
                w = count(cfg["max_cols"], 1) if draw(st.integers(0, 11)) else 0
                rows = [row(w) for _ in range(count(3, 1))]
                if cfg.get("p_ragged") and prob(cfg["p_ragged"]):
                    # a table edited after parsing: one row got an extra cell / lost one (each row is still copied cell by cell)
                    r_ = rows[count(len(rows) - 1)]
                    if draw(st.booleans()) or not r_["cells"]:
                        r_["cells"].append({"location": loc(), "value": draw(cfg["cell"])})
                    else:
                        r_["cells"].pop()
                s["dataTable"] = {"location": loc(), "rows": rows}
            else:
                ds = {"location": loc(), "content": draw(cfg["content"]), "delimiter": draw(st.sampled_from(['"""', "```"]))}
                if draw(st.booleans()):
                    ds["mediaType"] = draw(cfg["media"])
                s["docString"] = ds
        s["id"] = gid()
        return s

    def background(p):
        if not prob(p):
            return []
        steps = [step() for _ in range(count(cfg["max_steps"]))]
        return [{"background": {"id": gid(), "location": loc(), "keyword": "Background", "name": "",
                                "description": "", "steps": steps}}]

    def examples():
        e = {"id": None, "tags": None, "location": loc(), "keyword": "Examples", "name": draw(cfg["name"]),
             "description": "", "tableBody": []}
        if prob(cfg["p_header"]):
            w = count(cfg["max_cols"], 1) if draw(st.integers(0, 11)) else 0  # a lone '|' is a header with no cells
            hdr = [draw(cfg["header"]) for _ in range(w)]
            e["tableHeader"] = row(w, hdr)
            e["tableBody"] = [row(w) for _ in range(count(cfg["max_rows"]))]
            if cfg.get("p_shared_node") and e["tableBody"] and prob(cfg["p_shared_node"]):
                # "run this example twice": the same row node listed again
                e["tableBody"].insert(count(len(e["tableBody"])), e["tableBody"][count(len(e["tableBody"]) - 1)])
        e["tags"] = fix_tags(tags())
        e["id"] = gid()
        return e

    seen_steps = []

    def scenario():
        steps = [step() for _ in range(count(cfg["max_steps"]))]
        if cfg.get("p_shared_node") and seen_steps and prob(cfg["p_shared_node"]):
            # a step node of an earlier place spliced in again (shared steps of templated / merged ASTs): an equal element, same id
            steps.insert(count(len(steps)), dict(seen_steps[count(len(seen_steps) - 1)]))
        seen_steps.extend(steps)
        exs = [examples() for _ in range(count(cfg["max_examples"], 1))] if prob(cfg["p_outline"]) else []
        ts = fix_tags(tags())
        return {"scenario": {"id": gid(), "tags": ts, "location": loc(),
                             "keyword": "Scenario Outline" if exs else "Scenario", "name": draw(cfg["name"]),
                             "description": "", "steps": steps, "examples": exs}}

    def rule():
        ch = background(cfg["p_rule_bg"]) + [scenario() for _ in range(count(cfg["max_scenarios"]))]
        ts = fix_tags(tags())
        return {"rule": {"id": gid(), "tags": ts, "location": loc(), "keyword": "Rule", "name": "r",
                         "description": "", "children": ch}}

    doc = {"comments": [], "uri": draw(cfg["uri"])}
    if draw(st.integers(0, 30)) != 0:
        rest = [scenario() for _ in range(count(cfg["max_scenarios"]))] + [rule() for _ in range(count(cfg["max_rules"]))]
        if cfg.get("p_any_order") and len(rest) > 1 and prob(cfg["p_any_order"]):
            # merged / re-ordered documents: scenarios and rules in any arrangement (the parser itself puts scenarios first)
            rest = draw(st.permutations(rest))
        ch = background(cfg["p_bg"]) + list(rest)
        doc["feature"] = {"tags": fix_tags(tags()), "location": loc(), "language": draw(cfg["language"]),
                          "keyword": "Feature", "name": "f", "description": "", "children": ch}
    return {"doc": doc, "next_id": gid.n}


def ast_features(doc):
    """labels describing the shape of an AST (for histograms and non-triviality rules)"""
    f = doc.get("feature")
    lab = {"feature": bool(f), "fbg": False, "rules": 0, "rule_bgs": 0, "scenarios": 0, "outlines": 0, "examples": 0,
           "header_only": 0, "no_table": 0, "stepless": 0, "rows": 0, "outline_in_rule": 0, "multi_examples": 0,
           "tag_levels": set(), "args": 0}
    if not f:
        return lab
    if f["tags"]:
        lab["tag_levels"].add("feature")

    def scen(sc, in_rule):
        lab["scenarios"] += 1
        if sc["tags"]:
            lab["tag_levels"].add("scenario")
        if not sc["steps"]:
            lab["stepless"] += 1
        lab["args"] += sum(1 for s in sc["steps"] if "dataTable" in s or "docString" in s)
        if sc["examples"]:
            lab["outlines"] += 1
            if in_rule:
                lab["outline_in_rule"] += 1
            if len(sc["examples"]) > 1:
                lab["multi_examples"] += 1
            for ex in sc["examples"]:
                lab["examples"] += 1
                if ex["tags"]:
                    lab["tag_levels"].add("examples")
                if "tableHeader" not in ex:
                    lab["no_table"] += 1
                elif not ex["tableBody"]:
                    lab["header_only"] += 1
                lab["rows"] += len(ex["tableBody"])

    for ch in f["children"]:
        if "background" in ch:
            lab["fbg"] = True
        elif "scenario" in ch:
            scen(ch["scenario"], False)
        else:
            lab["rules"] += 1
            if ch["rule"]["tags"]:
                lab["tag_levels"].add("rule")
            for c2 in ch["rule"]["children"]:
                if "background" in c2:
                    lab["rule_bgs"] += 1
                else:
                    scen(c2["scenario"], True)
    return lab
