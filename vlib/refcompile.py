"""R8 - reference pickle compiler: a direct transcription of properties C06-C11 over an AST dictionary."""
from __future__ import annotations


def interpolate(text, header_cells, value_cells):
    """literal, sequential replacement of '<h>' in header order"""
    for h, v in zip(header_cells, value_cells):
        text = text.replace("<" + h["value"] + ">", v["value"])
    return text


def _argument(step, hdr, row):
    if "dataTable" in step:
        return {"dataTable": {"rows": [{"cells": [{"value": interpolate(c["value"], hdr, row)} for c in r["cells"]]}
                                       for r in step["dataTable"]["rows"]]}}
    if "docString" in step:
        ds = {"content": interpolate(step["docString"]["content"], hdr, row)}
        if "mediaType" in step["docString"]:
            ds["mediaType"] = interpolate(step["docString"]["mediaType"], hdr, row)
        return {"docString": ds}
    return None


def ref_compile(doc, start_id=0):
    """-> list of pickles; ids are drawn as str(start_id), str(start_id+1), ... (steps before their pickle)"""
    nid = [start_id]

    def gid():
        v = str(nid[0])
        nid[0] += 1
        return v

    out = []
    feature = doc.get("feature")
    if not feature:
        return out
    uri = doc["uri"]
    lang = feature["language"]

    def ptags(ts):
        return [{"astNodeId": t["id"], "name": t["name"]} for t in ts]

    def scenario(sc, tags, bg):
        def steps(hdr, row, rowid):
            res = []
            last = "Unknown"
            if not sc["steps"]:
                return res
            for st, isbg in [(s, True) for s in bg] + [(s, False) for s in sc["steps"]]:
                if st["keywordType"] != "Conjunction":
                    last = st["keywordType"]
                ps = {"astNodeIds": [st["id"]] + ([rowid] if (rowid is not None and not isbg) else []),
                      "id": gid(), "type": last,
                      "text": st["text"] if isbg else interpolate(st["text"], hdr, row)}
                a = _argument(st, [] if isbg else hdr, [] if isbg else row)
                if a is not None:
                    ps["argument"] = a
                res.append(ps)
            return res

        if not sc["examples"]:
            s = steps([], [], None)
            out.append({"astNodeIds": [sc["id"]], "id": gid(), "tags": ptags(tags + sc["tags"]), "name": sc["name"],
                        "language": lang, "steps": s, "uri": uri})
            return
        for ex in sc["examples"]:
            if "tableHeader" not in ex:
                continue
            hdr = ex["tableHeader"]["cells"]
            for r in ex["tableBody"]:
                s = steps(hdr, r["cells"], r["id"])
                out.append({"astNodeIds": [sc["id"], r["id"]], "id": gid(),
                            "tags": ptags(tags + sc["tags"] + ex["tags"]),
                            "name": interpolate(sc["name"], hdr, r["cells"]), "language": lang, "steps": s, "uri": uri})

    fbg = []
    for ch in feature["children"]:
        if "background" in ch:
            fbg = fbg + ch["background"]["steps"]
        elif "scenario" in ch:
            scenario(ch["scenario"], feature["tags"], fbg)
        else:
            rule = ch["rule"]
            rbg = list(fbg)
            for c2 in rule["children"]:
                if "background" in c2:
                    rbg = rbg + c2["background"]["steps"]
                else:
                    scenario(c2["scenario"], feature["tags"] + rule["tags"], rbg)
    return out


# ------------------------------------------------------------------ projections used by the individual properties
def proj_c06(pickles):
    return [{k: p.get(k, "<missing>") for k in ("astNodeIds", "name", "uri", "language")} for p in pickles]


def proj_c07(pickles):
    return [[{k: s.get(k, "<missing>") for k in ("astNodeIds", "text", "argument")} for s in p.get("steps", [])]
            for p in pickles]


def proj_c08(pickles):
    return [p.get("tags", "<missing>") for p in pickles]


def proj_c10(pickles):
    return [[s.get("type", "<missing>") for s in p.get("steps", [])] for p in pickles]


def proj_ids(pickles):
    """which id went to which pickle / pickle step, named by the AST nodes they were made from (canonical order = document order)"""
    return [([(s.get("id"), s.get("astNodeIds")) for s in p.get("steps", [])], p.get("id"), p.get("astNodeIds"), [t.get("astNodeId") for t in p.get("tags", [])]) for p in pickles]


def all_scenarios(doc):
    """[(scenario, rule or None)] in document order"""
    f = doc.get("feature")
    out = []
    if not f:
        return out
    for ch in f["children"]:
        if "scenario" in ch:
            out.append((ch["scenario"], None))
        elif "rule" in ch:
            for c2 in ch["rule"]["children"]:
                if "scenario" in c2:
                    out.append((c2["scenario"], ch["rule"]))
    return out
