"""R5 - transition tables: lifted from the sibling generated parsers (text) and probed from the running Python parser."""
from __future__ import annotations

import collections
import os
import re
from collections import deque

from . import gh
from .common import REPO, HarnessError, Violation
from .refs import KINDS

STATES = list(range(0, 34)) + list(range(35, 43))
END_STATE = 34

# one small regex set per language; a transition is: match line, optional look-ahead line, productions, return line
SIBLINGS = {
    "ruby": ("ruby/lib/gherkin/parser.rb", dict(
        state=r"def match_token_at_state(\d+)\(", match=r"^\s+if match_(\w+)\(context, token\)", la=r"if lookahead(\d+)\(",
        start=r"start_rule\(context, :(\w+)\)", end=r"end_rule\(context, :(\w+)\)", build=r"^\s+build\(context, token\)",
        ret=r"^\s+return (\d+)", expected=r"expected_tokens = \[(.*)\]", lafun=r"def lookahead(\d+)\(")),
    "go": ("go/parser.go", dict(
        state=r"func \(ctxt \*parseContext\) matchAt(\d+)\(", match=r"if ok, token, err := ctxt\.match(\w+)\(line\); ok",
        la=r"if ctxt\.lookahead(\d+)\(", start=r"ctxt\.startRule\(RuleType(\w+)\)", end=r"ctxt\.endRule\(RuleType(\w+)\)",
        build=r"ctxt\.build\(token\)", ret=r"^\s+return (\d+), err", expected=r"expectedTokens = \[\]string\{(.*)\}",
        lafun=r"func \(ctxt \*parseContext\) lookahead(\d+)\(")),
    "java": ("java/src/main/java/io/cucumber/gherkin/Parser.java", dict(
        state=r"private int matchTokenAt_(\d+)\(", match=r"^\s+if \(match_(\w+)\(context, token\)\)", la=r"if \(lookahead_(\d+)\(",
        start=r"startRule\(context, RuleType\.(\w+)\)", end=r"endRule\(context, RuleType\.(\w+)\)", build=r"^\s+build\(context, token\)",
        ret=r"^\s+return (\d+);", expected=r"expectedTokens = asList\((.*)\)", lafun=r"private boolean lookahead_(\d+)\(")),
    "c": ("c/src/parser.c", dict(
        state=r"static int match_token_at_(\d+)\(Token", match=r"^\s+if \(match_(\w+)\(context, token\)\)", la=r"if \(lookahead_(\d+)\(",
        start=r"start_rule\(context, Rule_(\w+)\)", end=r"end_rule\(context, Rule_(\w+)\)", build=r"^\s+build\(context, token\)",
        ret=r"^\s+return (\d+);", expected=r"expected_tokens = L\"(.*)\";", lafun=r"static bool lookahead_(\d+)\(ParserContext")),
    "javascript": ("javascript/src/Parser.ts", dict(
        state=r"private matchTokenAt_(\d+)\(", match=r"^\s+if\(this\.match_(\w+)\(context, token\)\)", la=r"if\(this\.lookahead_(\d+)\(",
        start=r"this\.startRule\(context, RuleType\.(\w+)\)", end=r"this\.endRule\(context\)()", build=r"this\.build\(context, token\)",
        ret=r"^\s+return (\d+);", expected=r"const expectedTokens = \[(.*)\]", lafun=r"private lookahead_(\d+)\(")),
    # static view of the python parser (cross-check only)
    "python-static": ("python/gherkin/parser.py", dict(
        state=r"def match_token_at_(\d+)\(self", match=r"^\s+if self\.match_(\w+)\(context, token\)", la=r"if self\.lookahead_(\d+)\(",
        start=r"self\.start_rule\(context, '(\w+)'\)", end=r"self\.end_rule\(context, '(\w+)'\)", build=r"^\s+self\.build\(context, token\)",
        ret=r"^\s+return (\d+)", expected=r"expected_tokens = \[(.*)\]", lafun=r"def lookahead_(\d+)\(self")),
}


def extract(name):
    rel, pats = SIBLINGS[name]
    P = {k: re.compile(v) for k, v in pats.items()}
    states = {}
    lookaheads = {}
    cur = None
    pending = None
    lacur = None
    labuf = []
    path = os.path.join(REPO, rel)
    for line in open(path, encoding="utf8"):
        m = P["lafun"].search(line)
        if m:
            cur = None
            lacur = int(m.group(1))
            labuf = []
            continue
        if lacur is not None:
            labuf.append(line)
            if re.search(r"return match", line):
                text = "".join(labuf)
                parts = re.split(r"match = [tT]rue", text)
                names = lambda s: re.findall(r"[mM]atch_?([A-Z]\w+)\(", s)
                lookaheads[lacur] = (names(parts[0]), names(parts[1]) if len(parts) > 1 else [])
                lacur = None
            continue
        m = P["state"].search(line)
        if m:
            cur = int(m.group(1))
            states[cur] = {"trans": [], "expected": None}
            pending = None
            continue
        if cur is None:
            continue
        m = P["match"].search(line)
        if m:
            pending = {"tok": m.group(1), "la": None, "prods": [], "target": None}
            continue
        m = P["la"].search(line)
        if m and pending is not None:
            pending["la"] = int(m.group(1))
            continue
        m = P["start"].search(line)
        if m and pending is not None:
            pending["prods"].append(("start", m.group(1)))
            continue
        m = P["end"].search(line)
        if m and pending is not None:
            pending["prods"].append(("end", m.group(1) or None))
            continue
        m = P["build"].search(line)
        if m and pending is not None:
            pending["prods"].append(("build",))
            continue
        m = P["ret"].search(line)
        if m:
            if pending is not None:
                pending["target"] = int(m.group(1))
                states[cur]["trans"].append(pending)
                pending = None
            continue
        m = P["expected"].search(line)
        if m:
            states[cur]["expected"] = re.findall(r"#\w+", m.group(1))
    table = {s: ([(t["tok"], t["la"], [tuple(p) for p in t["prods"]], t["target"]) for t in v["trans"]], v["expected"])
             for s, v in states.items()}
    return {"states": table, "lookaheads": lookaheads}


# ------------------------------------------------------------------------------- dynamic probing of the real parser
class StubToken(gh.Token):
    pass


def stub_token(kinds, line=1):
    t = gh.Token(None if "EOF" in kinds else gh.GherkinLine("x\n", line), {"line": line})
    t.kinds = frozenset(kinds)
    return t


class StubMatcher(gh.TokenMatcher):
    """a TokenMatcher (by type) that delivers prescribed kinds: token.kinds is the set of kinds the line would match"""

    def __init__(self):
        super().__init__("en")
        self.calls = []

    def reset(self):
        pass


def _stub_match(k):
    def m(self, token):
        if not hasattr(token, "kinds"):
            # the parser asks about a token that did not come from the scanner object it was handed
            from .common import Violation
            raise Violation({"sub": "foreign-token", "asked": k}, "the parser was given a scanner object but matches a token that object never "
                            "delivered: %r at %r" % (getattr(getattr(token, "line", None), "_line_text", token), getattr(token, "location", None)))
        self.calls.append((k, token.location["line"]))
        ok = k in token.kinds
        if ok:
            token.matched_type = k
        return ok
    return m


for _name in dir(gh.TokenMatcher):
    if _name.startswith("match_"):
        setattr(StubMatcher, _name, _stub_match(_name[6:]))


class RecordingBuilder(gh.AstBuilder):
    """an AstBuilder (by type) that only records the events it receives"""

    def __init__(self):
        super().__init__()
        self.ev = []

    def reset(self):
        self.ev = []

    def start_rule(self, r):
        self.ev.append(("start", r))

    def end_rule(self, r):
        self.ev.append(("end", r))

    def build(self, t):
        self.ev.append(("build", t.location["line"]))

    def get_result(self):
        return None


from gherkin.token_scanner import TokenScanner as _gh_TokenScanner  # noqa: E402


class ListScanner(_gh_TokenScanner):
    """a TokenScanner (by type, as Parser.parse asks for) whose read() hands out prepared tokens"""
    def __init__(self, toks, eof_line=None):
        super().__init__("")
        self.toks = deque(toks)
        self.eof_line = eof_line if eof_line is not None else len(toks) + 1
        self.reads = 0

    def read(self):
        self.reads += 1
        return self.toks.popleft() if self.toks else stub_token(["EOF"], self.eof_line)


def _probe(state, kinds, forced=None):
    b = RecordingBuilder()
    p = gh.Parser(b)
    m = StubMatcher()
    ctx = gh.ParserContext(ListScanner([]), m, deque(), [])
    la_calls = []
    if forced is not None:
        script = list(forced)

        def mk(i):
            def fake(context, token):
                la_calls.append(i)
                return script.pop(0) if script else False
            return fake
        p.lookahead_0 = mk(0)
        p.lookahead_1 = mk(1)
    t = stub_token(kinds)
    new = p.match_token(state, t, ctx)
    return new, b.ev, m.calls, ctx.errors, la_calls


def python_dynamic():
    """the table of the running parser: same shape as extract()"""
    table = {}
    for s in STATES:
        new, ev, calls, errs, _ = _probe(s, [])
        order = [k for k, l in calls if l == 1]
        if new != s or len(errs) != 1:
            raise Violation({"sub": "expected", "state": s},
                            "state %d given a line that matches nothing: parser moves to state %r with errors %r (must stay and report one)" % (s, new, [str(e) for e in errs]))
        m = re.search(r"expected: (.*), got", str(errs[0]))
        exp = m.group(1).split(", ") if m else None
        # EOF flavour of the error tail
        new2, _, _, errs2, _ = _probe(s, ["EOF-nothing"]) if False else (None, None, None, None, None)
        trans = []
        occ = collections.Counter()
        for k in order:
            occ[k] += 1
            nth = occ[k]
            total = order.count(k)
            if total > 1:
                # the nth test of the same kind is reached only when the n-1 guarded ones before it declined
                new, ev, calls, errs, la_calls = _probe(s, [k], forced=[False] * (nth - 1) + [True])
                la = la_calls[nth - 1] if len(la_calls) >= nth else None
            else:
                new, ev, calls, errs, la_calls = _probe(s, [k], forced=[True])
                la = la_calls[0] if la_calls else None
            prods = [e if e[0] != "build" else ("build",) for e in ev]
            trans.append((k, la, prods, new))
        table[s] = (trans, exp)
    return {"states": table, "lookaheads": python_lookaheads()}


def python_lookaheads():
    """probe the real look-ahead functions: which kinds end it with success, which are skipped"""
    out = {}
    for i in (0, 1):
        expected, skip = [], []
        for k in KINDS:
            if k == "EOF":
                continue
            b = RecordingBuilder()
            p = gh.Parser(b)
            m = StubMatcher()
            sc = ListScanner([stub_token([k], 2), stub_token(["Nothing"], 3)], eof_line=4)
            ctx = gh.ParserContext(sc, m, deque(), [])
            res = getattr(p, "lookahead_%d" % i)(ctx, stub_token(["TagLine"], 1))
            q = [t.location["line"] for t in ctx.token_queue]
            if q != list(range(2, 2 + len(q))):
                raise Violation({"sub": "table", "sibling": "ruby", "state": "lookaheads"},
                                "look-ahead %d leaves the lines it read out of order in the queue: %r" % (i, q))
            if res:
                expected.append(k)
            elif len(q) > 1:
                skip.append(k)
        out[i] = (expected, skip)
    return out


def eof_tail(state):
    """what the running parser reports when EOF arrives in `state` and is not accepted: expected list or None if accepted"""
    b = RecordingBuilder()
    p = gh.Parser(b)
    m = StubMatcher()
    ctx = gh.ParserContext(ListScanner([]), m, deque(), [])
    new = p.match_token(state, stub_token(["EOF"]), ctx)
    if ctx.errors:
        m2 = re.search(r"unexpected end of file, expected: (.*)$", str(ctx.errors[0]))
        return ("error", m2.group(1).split(", ") if m2 else str(ctx.errors[0]), new)
    return ("ok", None, new)


def normalise(table, drop_end_names=False):
    """comparable form; with drop_end_names the rule name of end productions is ignored (JavaScript omits it)"""
    out = {}
    for s, (trans, exp) in table["states"].items():
        tt = []
        for tok, la, prods, tgt in trans:
            pp = [(p[0],) if (drop_end_names and p[0] == "end") else tuple(p) for p in prods]
            tt.append((tok, la, pp, tgt))
        out[s] = (tt, list(exp) if exp is not None else None)
    la = {i: (sorted(e), sorted(k)) for i, (e, k) in table["lookaheads"].items()}
    return out, la
